/-
Helper lemmas for C11: lists of file-installing rules with pairwise different destinations — exactness of
the whole list, and idempotence.
-/
import MesonModel.Install.ExactLemmas

namespace MesonModel.Install

/-- a rule step `f` with its selection, destination key and the node it leaves there -/
structure RuleSpec {α : Type} (dirMode : Nat) (f : St → α → St) (ok : α → Prop) (sel : α → Bool) (key : α → Key)
    (node : α → Node) : Prop where
  skip : ∀ s e, sel e = false → f s e = s
  failed : ∀ s e, s.failed = true → f s e = s
  spec : ∀ s e, ok e → sel e = true → NL s.fs → (f s e).failed = false →
    NL (f s e).fs ∧ (f s e).fs.get (key e) = some (node e) ∧
    ∀ k, k ≠ key e → (f s e).fs.get k = s.fs.get k ∨
      (s.fs.get (key e) = none ∧ s.fs.get k = none ∧ (f s e).fs.get k = some (.dir dirMode))

section
variable {α : Type} {dirMode : Nat} {f : St → α → St} {ok : α → Prop} {sel : α → Bool} {key : α → Key}
  {node : α → Node}

theorem foldl_failed_sticky (R : RuleSpec dirMode f ok sel key node) (l : List α) (s : St) (h : s.failed = true) :
    l.foldl f s = s := by
  induction l generalizing s with
  | nil => rfl
  | cons a t ih => simp only [List.foldl_cons]; rw [R.failed s a h]; exact ih s h

/-- rules with pairwise different destinations: every selected rule's destination holds its node at the end;
every other key is as before or a newly created directory -/
theorem fold_rules_exact (R : RuleSpec dirMode f ok sel key node) (l : List α)
    (hok : ∀ e ∈ l, ok e)
    (hdist : l.Pairwise (fun a b => sel a = true → sel b = true → key a ≠ key b))
    (s : St) (hNL : NL s.fs) (hf : (l.foldl f s).failed = false) :
    NL (l.foldl f s).fs ∧
    (∀ e ∈ l, sel e = true → (l.foldl f s).fs.get (key e) = some (node e)) ∧
    (∀ k, (∀ e ∈ l, sel e = true → key e ≠ k) →
      (l.foldl f s).fs.get k = s.fs.get k ∨ (s.fs.get k = none ∧ (l.foldl f s).fs.get k = some (.dir dirMode))) := by
  induction l generalizing s with
  | nil => exact ⟨hNL, by simp, fun k _ => Or.inl rfl⟩
  | cons a t ih =>
    simp only [List.foldl_cons] at hf ⊢
    have hd := List.pairwise_cons.mp hdist
    have hs1 : (f s a).failed = false := by
      by_cases e : (f s a).failed = true
      · rw [foldl_failed_sticky R t _ e] at hf; rw [hf] at e; cases e
      · simpa using e
    by_cases hsel : sel a = true
    · obtain ⟨n1, g1, fr1⟩ := R.spec s a (hok a (by simp)) hsel hNL hs1
      obtain ⟨n2, g2, fr2⟩ := ih (fun e he => hok e (by simp [he])) hd.2 (f s a) n1 hf
      refine ⟨n2, ?_, ?_⟩
      · intro e he hse
        rcases List.mem_cons.mp he with rfl | he'
        · rcases fr2 (key e) (fun e' he' hse' => (hd.1 e' he' hsel hse').symm) with h | ⟨h, _⟩
          · rw [h, g1]
          · rw [g1] at h; cases h
        · exact g2 e he' hse
      · intro k hk
        have hka : k ≠ key a := fun e => hk a (by simp) hsel e.symm
        rcases fr2 k (fun e he hse => hk e (by simp [he]) hse) with h | ⟨h1, h2⟩
        · rcases fr1 k hka with h' | ⟨_, h1', h2'⟩
          · exact Or.inl (by rw [h, h'])
          · exact Or.inr ⟨h1', by rw [h, h2']⟩
        · rcases fr1 k hka with h' | ⟨_, _, h2'⟩
          · exact Or.inr ⟨by rw [← h', h1], h2⟩
          · rw [h2'] at h1; cases h1
    · have hsel' : sel a = false := by simpa using hsel
      rw [R.skip s a hsel'] at hf ⊢
      obtain ⟨n2, g2, fr2⟩ := ih (fun e he => hok e (by simp [he])) hd.2 s hNL hf
      refine ⟨n2, ?_, ?_⟩
      · intro e he hse
        rcases List.mem_cons.mp he with rfl | he'
        · rw [hsel'] at hse; cases hse
        · exact g2 e he' hse
      · intro k hk
        exact fr2 k (fun e he hse => hk e (by simp [he]) hse)

/-- overlapping destinations: **the later rule wins** — a selected rule's destination holds its node at the end
whenever no *later* selected rule of the list has the same destination -/
theorem fold_rules_last_wins (R : RuleSpec dirMode f ok sel key node) (l : List α) (hok : ∀ e ∈ l, ok e)
    (s : St) (hNL : NL s.fs) (hf : (l.foldl f s).failed = false) :
    NL (l.foldl f s).fs ∧
    (∀ pre e post, l = pre ++ e :: post → sel e = true → (∀ e' ∈ post, sel e' = true → key e' ≠ key e) →
      (l.foldl f s).fs.get (key e) = some (node e)) ∧
    (∀ k, (∀ e ∈ l, sel e = true → key e ≠ k) →
      (l.foldl f s).fs.get k = s.fs.get k ∨ (s.fs.get k = none ∧ (l.foldl f s).fs.get k = some (.dir dirMode))) := by
  induction l generalizing s with
  | nil =>
    refine ⟨hNL, ?_, fun k _ => Or.inl rfl⟩
    intro pre e post h
    cases pre <;> simp at h
  | cons a t ih =>
    simp only [List.foldl_cons] at hf ⊢
    have hs1 : (f s a).failed = false := by
      by_cases e : (f s a).failed = true
      · rw [foldl_failed_sticky R t _ e] at hf; rw [hf] at e; cases e
      · simpa using e
    by_cases hsel : sel a = true
    · obtain ⟨n1, g1, fr1⟩ := R.spec s a (hok a (by simp)) hsel hNL hs1
      obtain ⟨n2, g2, fr2⟩ := ih (fun e he => hok e (by simp [he])) (f s a) n1 hf
      refine ⟨n2, ?_, ?_⟩
      · intro pre e post hl hse hlater
        cases pre with
        | nil =>
          simp only [List.nil_append, List.cons.injEq] at hl
          obtain ⟨rfl, rfl⟩ := hl
          rcases fr2 (key a) (fun e' he' hse' => hlater e' he' hse') with h | ⟨h, _⟩
          · rw [h, g1]
          · rw [g1] at h; cases h
        | cons b pre' =>
          simp only [List.cons_append, List.cons.injEq] at hl
          exact g2 pre' e post hl.2 hse hlater
      · intro k hk
        have hka : k ≠ key a := fun e => hk a (by simp) hsel e.symm
        rcases fr2 k (fun e he hse => hk e (by simp [he]) hse) with h | ⟨h1, h2⟩
        · rcases fr1 k hka with h' | ⟨_, h1', h2'⟩
          · exact Or.inl (by rw [h, h'])
          · exact Or.inr ⟨h1', by rw [h, h2']⟩
        · rcases fr1 k hka with h' | ⟨_, _, h2'⟩
          · exact Or.inr ⟨by rw [← h', h1], h2⟩
          · rw [h2'] at h1; cases h1
    · have hsel' : sel a = false := by simpa using hsel
      rw [R.skip s a hsel'] at hf ⊢
      obtain ⟨n2, g2, fr2⟩ := ih (fun e he => hok e (by simp [he])) s hNL hf
      refine ⟨n2, ?_, ?_⟩
      · intro pre e post hl hse hlater
        cases pre with
        | nil =>
          simp only [List.nil_append, List.cons.injEq] at hl
          rw [← hl.1, hsel'] at hse; cases hse
        | cons b pre' =>
          simp only [List.cons_append, List.cons.injEq] at hl
          exact g2 pre' e post hl.2 hse hlater
      · intro k hk
        exact fr2 k (fun e he hse => hk e (by simp [he]) hse)

/-- when every selected rule's destination already holds its node, running the rules changes nothing -/
theorem fold_rules_fixed (R : RuleSpec dirMode f ok sel key node) (l : List α) (hok : ∀ e ∈ l, ok e)
    (s : St) (hNL : NL s.fs)
    (hthere : ∀ e ∈ l, sel e = true → s.fs.get (key e) = some (node e))
    (hf : (l.foldl f s).failed = false) :
    NL (l.foldl f s).fs ∧ ∀ k, (l.foldl f s).fs.get k = s.fs.get k := by
  induction l generalizing s with
  | nil => exact ⟨hNL, fun _ => rfl⟩
  | cons a t ih =>
    simp only [List.foldl_cons] at hf ⊢
    have hs1 : (f s a).failed = false := by
      by_cases e : (f s a).failed = true
      · rw [foldl_failed_sticky R t _ e] at hf; rw [hf] at e; cases e
      · simpa using e
    by_cases hsel : sel a = true
    · obtain ⟨n1, g1, fr1⟩ := R.spec s a (hok a (by simp)) hsel hNL hs1
      have hsame : ∀ k, (f s a).fs.get k = s.fs.get k := by
        intro k
        by_cases hk : k = key a
        · rw [hk, g1, hthere a (by simp) hsel]
        · rcases fr1 k hk with h | ⟨h, _⟩
          · exact h
          · rw [hthere a (by simp) hsel] at h; cases h
      obtain ⟨n2, g2⟩ := ih (fun e he => hok e (by simp [he])) (f s a) n1 (fun e he hse => by rw [hsame]; exact hthere e (by simp [he]) hse) hf
      exact ⟨n2, fun k => by rw [g2 k, hsame k]⟩
    · have hsel' : sel a = false := by simpa using hsel
      rw [R.skip s a hsel'] at hf ⊢
      exact ih (fun e he => hok e (by simp [he])) s hNL (fun e he hse => hthere e (by simp [he]) hse) hf

end

/-! ### the data / man / header rules as `RuleSpec`s -/

/-- the node a file rule is planned to leave: the source's content and time stamp, permissions by `modeRule` -/
def fileNode (cfg : Cfg) (e : DataEntry) : Node :=
  match e.src with
  | .file m d t => .file (modeRule cfg e.mode m) d t
  | _ => .dir 0

/-- destination key of a data / man rule -/
def dataKey (cfg : Cfg) (e : DataEntry) : Key :=
  match destPath cfg e.installPath with
  | some out => keyOf cfg.cwd out
  | none => []

/-- destination key of a header rule: the install directory plus the source's basename -/
def headerKey (cfg : Cfg) (e : DataEntry) : Key :=
  match destPath cfg e.installPath with
  | some od => keyOf cfg.cwd (join od (basename e.path))
  | none => []

def selData (cfg : Cfg) (e : DataEntry) : Bool := shouldInstall cfg e.subproject e.tag

/-- what the proofs need of one file rule -/
def okData (e : DataEntry) : Prop := basename e.path ≠ dotdot ∧ noLinkSrc e.src = true

theorem installFileTo_nonfile_fails (cfg : Cfg) (e : DataEntry) (out od : Str) (fo : Option Bool) (s : St)
    (h : noLinkSrc e.src = true) (hnf : ∀ m d t, e.src ≠ .file m d t) :
    (installFileTo cfg e out od fo s).failed = true := by
  unfold installFileTo doCopyfile
  cases hs : e.src with
  | file m d t => exact absurd hs (hnf m d t)
  | missing => simp [srcCopyable, St.failed, St.fail]
  | dir => simp [srcCopyable, St.failed, St.fail]
  | linkDangling _ => rw [hs] at h; cases h
  | linkFile _ _ _ _ => rw [hs] at h; cases h
  | linkDir _ => rw [hs] at h; cases h

section
variable {D : Key} (cfg : Cfg) (hdry : cfg.dryRun = false) (honly : cfg.onlyChanged = false) (hD : D ≠ [])
  (hdest : Dest cfg D)

include hdry honly hD hdest in
/-- shared core: a rule that resolves its destination with `destPath` and then runs `installFileTo` -/
theorem fileRule_spec (e : DataEntry) (hok : okData e) (out od : Str) (fo : Option Bool) (s : St)
    (hg : Good D out) (hNL : NL s.fs) (hf : (installFileTo cfg e out od fo s).failed = false) :
    NL (installFileTo cfg e out od fo s).fs ∧
    (installFileTo cfg e out od fo s).fs.get (keyOf cfg.cwd out) = some (fileNode cfg e) ∧
    ∀ k, k ≠ keyOf cfg.cwd out → (installFileTo cfg e out od fo s).fs.get k = s.fs.get k ∨
      (s.fs.get (keyOf cfg.cwd out) = none ∧ s.fs.get k = none ∧
        (installFileTo cfg e out od fo s).fs.get k = some (.dir (andNot 0o777 cfg.procUmask))) := by
  have hk := hg.key_ne_nil cfg hD
  by_cases hfile : ∃ m d t, e.src = .file m d t
  · obtain ⟨m, d, t, hsrc⟩ := hfile
    obtain ⟨a, b⟩ := installFileTo_exact cfg hdry honly e out od fo s m d t hsrc hNL hk hf
    refine ⟨installFileTo_NL cfg hdry honly e out od fo s m d t hsrc hNL hk hf, ?_, b⟩
    rw [a]; unfold fileNode; rw [hsrc]
  · have := installFileTo_nonfile_fails cfg e out od fo s hok.2 (fun m d t h => hfile ⟨m, d, t, h⟩)
    rw [this] at hf; cases hf

include hdry honly hD hdest in
theorem ruleSpec_data : RuleSpec (andNot 0o777 cfg.procUmask) (installDataOne cfg) okData (selData cfg) (dataKey cfg)
    (fileNode cfg) where
  skip := by intro s e h; unfold installDataOne; simp only [selData] at h; simp [h]
  failed := by intro s e h; unfold installDataOne; simp [h]
  spec := by
    intro s e hok hsel hNL hf
    unfold installDataOne at hf ⊢
    unfold dataKey
    simp only [selData] at hsel
    by_cases hs : s.failed = true
    · simp only [hs, if_true] at hf; cases hf
    · simp only [hs, hsel, Bool.not_true, Bool.false_eq_true, if_false] at hf ⊢
      cases hdp : destPath cfg e.installPath with
      | none => rw [hdp] at hf; simp [St.failed, St.fail] at hf
      | some out =>
        rw [hdp] at hf
        dsimp only at hf ⊢
        exact fileRule_spec cfg hdry honly hD hdest e hok out _ _ s (hdest _ _ hdp) hNL hf

include hdry honly hD hdest in
theorem ruleSpec_man : RuleSpec (andNot 0o777 cfg.procUmask) (installMan cfg) okData (selData cfg) (dataKey cfg)
    (fileNode cfg) where
  skip := by intro s e h; unfold installMan; simp only [selData] at h; simp [h]
  failed := by intro s e h; unfold installMan; simp [h]
  spec := by
    intro s e hok hsel hNL hf
    unfold installMan at hf ⊢
    unfold dataKey
    simp only [selData] at hsel
    by_cases hs : s.failed = true
    · simp only [hs, if_true] at hf; cases hf
    · simp only [hs, hsel, Bool.not_true, Bool.false_eq_true, if_false] at hf ⊢
      cases hdp : destPath cfg e.installPath with
      | none => rw [hdp] at hf; simp [St.failed, St.fail] at hf
      | some out =>
        rw [hdp] at hf
        dsimp only at hf ⊢
        exact fileRule_spec cfg hdry honly hD hdest e hok out _ _ s (hdest _ _ hdp) hNL hf

include hdry honly hD hdest in
theorem ruleSpec_header : RuleSpec (andNot 0o777 cfg.procUmask) (installHeader cfg) okData (selData cfg) (headerKey cfg)
    (fileNode cfg) where
  skip := by intro s e h; unfold installHeader; simp only [selData] at h; simp [h]
  failed := by intro s e h; unfold installHeader; simp [h]
  spec := by
    intro s e hok hsel hNL hf
    unfold installHeader at hf ⊢
    unfold headerKey
    simp only [selData] at hsel
    by_cases hs : s.failed = true
    · simp only [hs, if_true] at hf; cases hf
    · simp only [hs, hsel, Bool.not_true, Bool.false_eq_true, if_false] at hf ⊢
      cases hdp : destPath cfg e.installPath with
      | none => rw [hdp] at hf; simp [St.failed, St.fail] at hf
      | some od =>
        rw [hdp] at hf
        dsimp only at hf ⊢
        exact fileRule_spec cfg hdry honly hD hdest e hok _ od _ s
          ((hdest _ _ hdp).join_name (basename_noSep _) hok.1) hNL hf

/-! ### file targets -/

def targetNode (cfg : Cfg) (t : TargetEntry) : Node :=
  match t.src with
  | .file m d tt => .file (modeRule cfg t.mode m) d tt
  | _ => .dir 0

/-- destination key of a target: the output directory plus the file's basename -/
def targetKey (cfg : Cfg) (t : TargetEntry) : Key :=
  match destPath cfg t.outdir with
  | some od => keyOf cfg.cwd (join od (basename t.fname))
  | none => []

def selTarget (cfg : Cfg) (t : TargetEntry) : Bool := shouldInstall cfg t.subproject t.tag

/-- a target whose output is a regular file that exists -/
def okTarget (t : TargetEntry) : Prop := basename t.fname ≠ dotdot ∧ ∃ m d tt, t.src = .file m d tt

include hdry honly hD hdest in
theorem ruleSpec_target : RuleSpec (andNot 0o777 cfg.procUmask) (installTarget cfg) okTarget (selTarget cfg)
    (targetKey cfg) (targetNode cfg) where
  skip := by intro s e h; unfold installTarget; simp only [selTarget] at h; simp [h]
  failed := by intro s e h; unfold installTarget; simp [h]
  spec := by
    intro s t hok hsel hNL hf
    obtain ⟨hb, m, d, tt, hsrc⟩ := hok
    unfold installTarget at hf ⊢
    unfold targetKey targetNode
    simp only [selTarget] at hsel
    by_cases hs : s.failed = true
    · simp only [hs, if_true] at hf; cases hf
    · simp only [hs, hsel, Bool.not_true, Bool.false_eq_true, if_false, hsrc] at hf ⊢
      cases hdp : destPath cfg t.outdir with
      | none => rw [hdp] at hf; simp [St.failed, St.fail] at hf
      | some od =>
        rw [hdp] at hf
        dsimp only at hf ⊢
        have hg : Good D (join od (basename t.fname)) := (hdest _ _ hdp).join_name (basename_noSep _) hb
        have hk := hg.key_ne_nil cfg hD
        by_cases hc : (doCopyfile cfg t.fname (.file m d tt) (join od (basename t.fname)) (some od) none s).1.failed = true
        · simp [hc] at hf
        · have hc' : (doCopyfile cfg t.fname (.file m d tt) (join od (basename t.fname)) (some od) none s).1.failed = false := by
            simpa using hc
          obtain ⟨h22, n1, h2, h3⟩ := doCopyfile_file_spec cfg hdry honly t.fname (join od (basename t.fname)) m d tt
            (some od) none s hNL hk hc'
          simp only [hc', h22, Bool.false_eq_true, if_false, if_true] at hf ⊢
          obtain ⟨a, b, _⟩ := setMode_file_spec cfg hdry _ hk t.mode
            { (doCopyfile cfg t.fname (.file m d tt) (join od (basename t.fname)) (some od) none s).1 with didInstall := true }
            m d tt h2
          refine ⟨?_, a, fun k hkk => by rw [b k hkk]; exact h3 k hkk⟩
          intro k t' e'
          by_cases hkk : k = keyOf cfg.cwd (join od (basename t.fname))
          · rw [hkk, a] at e'; cases e'
          · rw [b k hkk] at e'; exact n1 k t' e'

end

end MesonModel.Install
