/-
POSIX path algebra used by `mesonbuild/minstall.py` (core Lean only).
Mirrors `posixpath.join/normpath/dirname/basename/split/isabs`, `pathlib.PurePosixPath` parsing as used by
`mesonbuild.scripts.destdir_join`, and `minstall.get_destdir_path`.
Strings are `List Char`.
-/
namespace MesonModel.Install

abbrev Str := List Char

/-- `s.split(c)` of Python for a one-character separator (never returns `[]`) -/
def splitOn (c : Char) : Str → List Str
  | [] => [[]]
  | x :: xs =>
    if x = c then [] :: splitOn c xs
    else match splitOn c xs with
      | [] => [[x]]
      | h :: t => (x :: h) :: t

/-- `sep.join(parts)` -/
def joinWith (sep : Char) : List Str → Str
  | [] => []
  | [a] => a
  | a :: b :: t => a ++ sep :: joinWith sep (b :: t)

def isAbs (p : Str) : Bool := match p with | '/' :: _ => true | _ => false

def endsWithSlash (p : Str) : Bool := p.getLast? == some '/'

/-- two-argument `posixpath.join` -/
def join (a b : Str) : Str :=
  if isAbs b then b
  else if a = [] || endsWithSlash a then a ++ b
  else a ++ '/' :: b

/-- `posixpath.join(a, *bs)` -/
def joinMany (a : Str) (bs : List Str) : Str := bs.foldl join a

/-- `p.rstrip('/')` -/
def rstripSlash (p : Str) : Str := (p.reverse.dropWhile (· = '/')).reverse

/-- `p[:p.rfind('/')+1]` -/
def headRaw (p : Str) : Str := (p.reverse.dropWhile (· ≠ '/')).reverse

/-- `posixpath.basename` -/
def basename (p : Str) : Str := (p.reverse.takeWhile (· ≠ '/')).reverse

/-- `posixpath.dirname` (= `posixpath.split(p)[0]`) -/
def dirname (p : Str) : Str :=
  let h := headRaw p
  if h ≠ [] && h.any (· ≠ '/') then rstripSlash h else h

def split (p : Str) : Str × Str := (dirname p, basename p)

def dotdot : Str := ['.', '.']

/-- number of leading slashes that `posixpath.normpath` keeps (0, 1 or 2) -/
def initialSlashes (p : Str) : Nat :=
  match p with
  | '/' :: '/' :: '/' :: _ => 1
  | '/' :: '/' :: _ => 2
  | '/' :: _ => 1
  | _ => 0

def normStep (init : Nat) (acc : List Str) (c : Str) : List Str :=
  if c = [] || c = ['.'] then acc
  else if c ≠ dotdot || (init = 0 && acc = []) || (acc ≠ [] && acc.getLast? = some dotdot) then acc ++ [c]
  else acc.dropLast

/-- `posixpath.normpath` -/
def normpath (p : Str) : Str :=
  if p = [] then ['.'] else
  let init := initialSlashes p
  let comps := (splitOn '/' p).foldl (normStep init) []
  let r := List.replicate init '/' ++ joinWith '/' comps
  if r = [] then ['.'] else r

/-! ### `pathlib.PurePosixPath` as used by `destdir_join` -/

/-- root of a parsed pure path: `"/"`, `"//"` (exactly two leading slashes) or `""` -/
def pureRoot (p : Str) : Str :=
  match p with
  | '/' :: '/' :: '/' :: _ => ['/']
  | '/' :: '/' :: _ => ['/', '/']
  | '/' :: _ => ['/']
  | _ => []

/-- tail components of a parsed pure path: empty and `.` components vanish, `..` is kept -/
def pureTail (p : Str) : List Str := (splitOn '/' p).filter (fun c => c ≠ [] && c ≠ ['.'])

/-- `PurePath(p).parts` -/
def pureParts (p : Str) : List Str :=
  if pureRoot p = [] then pureTail p else pureRoot p :: pureTail p

/-- `str(PurePath)` from root and tail -/
def pureFormat (root : Str) (tail : List Str) : Str :=
  let r := root ++ joinWith '/' tail
  if r = [] then ['.'] else r

/-- `mesonbuild.scripts.destdir_join`: `str(PurePath(d1, *PurePath(d2).parts[1:]))`, `d2` when `d1` is empty -/
def destdirJoin (d1 d2 : Str) : Str :=
  if d1 = [] then d2
  else pureFormat (pureRoot d1) (pureTail d1 ++ (pureParts d2).tail)

/-- `minstall.get_destdir_path` (`path_has_root` is `os.path.isabs` on POSIX) -/
def getDestdirPath (destdir fullprefix path : Str) : Str :=
  if isAbs path then destdirJoin destdir path else join fullprefix path

/-! ### file-system keys: what the kernel resolves a path string to (no symlinked directories on the way) -/

abbrev Key := List Str

def keyStep (acc : Key) (c : Str) : Key :=
  if c = [] || c = ['.'] then acc
  else if c = dotdot then acc.dropLast
  else acc ++ [c]

/-- components of an absolute path string, resolved lexically -/
def keyOfAbs (p : Str) : Key := (splitOn '/' p).foldl keyStep []

/-- key of a path string used by a process whose working directory is `cwd` -/
def keyOf (cwd p : Str) : Key := keyOfAbs (join cwd p)

end MesonModel.Install
