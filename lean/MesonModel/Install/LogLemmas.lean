/-
Helper lemmas for C11: the installer's own log.  On link-free trees, `os.makedirs` creates exactly the
absent prefixes of its key and `DirMaker` records exactly those.
-/
import MesonModel.Install.ConfineInstall
import MesonModel.Install.UninstallLemmas

namespace MesonModel.Install

/-- no symbolic link anywhere in the tree -/
def NL (fs : FS) : Prop := ∀ k t, fs.get k ≠ some (.link t)

/-- every entry sits in a directory -/
def WF (fs : FS) : Prop := ∀ c, c ≠ [] → fs.get c ≠ none → c.dropLast = [] ∨ ∃ m, fs.get c.dropLast = some (.dir m)

theorem follow_eq_look {fs : FS} (h : NL fs) (k : Key) : fs.follow k = fs.look k := by
  unfold FS.follow
  cases hl : fs.look k with
  | none => rfl
  | some n =>
    cases n with
    | link t =>
      exfalso
      unfold FS.look at hl
      split at hl
      · cases hl
      · exact h k t hl
    | dir m => rfl
    | file m d t => rfl

theorem look_of_ne_nil (fs : FS) (k : Key) (h : k ≠ []) : fs.look k = fs.get k := by simp [FS.look, h]

theorem NL_set_dir {fs : FS} (h : NL fs) (k : Key) (m : Nat) : NL (fs.set k (.dir m)) := by
  intro k' t
  by_cases e : k' = k
  · subst e; rw [get_set_same]; simp
  · rw [get_set_other _ _ _ _ e]; exact h k' t

theorem mkdirsGo_failed_sticky (mode : Nat) (ok : Bool) (rest : List Str) (pre : Key) (s : St)
    (h : (mkdirsGo mode ok pre rest s).failed = false) : s.failed = false := by
  induction rest generalizing pre s with
  | nil => exact h
  | cons c t ih =>
    unfold mkdirsGo at h
    dsimp only at h
    split at h
    · split at h
      · simp [St.failed, St.fail] at h
      · have := ih _ _ h
        simpa [St.write, St.failed] using this
    · split at h
      · simp [St.failed, St.fail] at h
      · exact ih _ _ h
    · simp [St.failed, St.fail] at h

/-- what a successful `os.makedirs` does on a link-free tree -/
theorem mkdirsGo_spec (mode : Nat) (ok : Bool) (rest : List Str) (pre : Key) (s : St) (hNL : NL s.fs)
    (h : (mkdirsGo mode ok pre rest s).failed = false) :
    (mkdirsGo mode ok pre rest s).log = s.log ∧ (mkdirsGo mode ok pre rest s).dirs = s.dirs ∧
    NL (mkdirsGo mode ok pre rest s).fs ∧
    (∀ k, (mkdirsGo mode ok pre rest s).fs.get k = s.fs.get k ∨
      (∃ r1, r1 <+: rest ∧ r1 ≠ [] ∧ k = pre ++ r1 ∧ s.fs.get k = none ∧
        (mkdirsGo mode ok pre rest s).fs.get k = some (.dir mode))) ∧
    (∀ r1, r1 <+: rest → r1 ≠ [] → ∃ m, (mkdirsGo mode ok pre rest s).fs.get (pre ++ r1) = some (.dir m)) := by
  induction rest generalizing pre s with
  | nil =>
    refine ⟨rfl, rfl, hNL, fun k => Or.inl rfl, ?_⟩
    intro r1 h1 h2
    exact absurd (List.prefix_nil.mp h1) h2
  | cons c t ih =>
    have hk0 : pre ++ [c] ≠ [] := by simp
    unfold mkdirsGo at h ⊢
    dsimp only at h ⊢
    rw [follow_eq_look hNL, look_of_ne_nil _ _ hk0] at h ⊢
    -- prefixes of `c :: t`
    have hpre : ∀ r1, r1 <+: c :: t → r1 ≠ [] → ∃ r', r1 = c :: r' ∧ r' <+: t := by
      intro r1 h1 h2
      cases r1 with
      | nil => exact absurd rfl h2
      | cons a r' =>
        have := List.cons_prefix_cons.mp h1
        exact ⟨r', by rw [this.1], this.2⟩
    cases hget : s.fs.get (pre ++ [c]) with
    | none =>
      -- absent: created
      try rw [hget] at h
      dsimp only at h ⊢
      simp only [Option.isSome_none, Bool.false_eq_true, if_false] at h ⊢
      have hNL' : NL (s.write (pre ++ [c]) (.dir mode)).fs := NL_set_dir hNL _ _
      obtain ⟨h1, h2, h3, h4, h5⟩ := ih (pre ++ [c]) (s.write (pre ++ [c]) (.dir mode)) hNL' h
      refine ⟨h1, h2, h3, ?_, ?_⟩
      · intro k
        rcases h4 k with e | ⟨r1, hr1, hr2, hr3, hr4, hr5⟩
        · by_cases hk : k = pre ++ [c]
          · right
            refine ⟨[c], by simp, by simp, hk, by rw [hk]; exact hget, ?_⟩
            rw [e, hk]; simp [St.write, get_set_same]
          · left; rw [e]; simp [St.write, get_set_other _ _ _ _ hk]
        · right
          refine ⟨c :: r1, List.cons_prefix_cons.mpr ⟨rfl, hr1⟩, by simp, by rw [hr3]; simp, ?_, hr5⟩
          have hne : k ≠ pre ++ [c] := by
            rw [hr3]; intro e
            have := congrArg List.length e
            exact hr2 (by simpa using this)
          simpa [St.write, get_set_other _ _ _ _ hne] using hr4
      · intro r1 hr1 hr2
        obtain ⟨r', rfl, hr'⟩ := hpre r1 hr1 hr2
        by_cases hr0 : r' = []
        · subst hr0
          rcases h4 (pre ++ [c]) with e | ⟨_, _, _, _, hn, _⟩
          · exact ⟨mode, by rw [e]; simp [St.write, get_set_same]⟩
          · simp [St.write, get_set_same] at hn
        · have := h5 r' hr' hr0
          simpa using this
    | some n =>
     cases n with
     | file _ _ _ => (try rw [hget] at h); simp [St.failed, St.fail] at h
     | link _ => (try rw [hget] at h); simp [St.failed, St.fail] at h
     | dir m =>
      -- an existing directory
      try rw [hget] at h
      dsimp only at h ⊢
      split at h
      · simp [St.failed, St.fail] at h
      · rename_i hc
        rw [if_neg hc]
        obtain ⟨h1, h2, h3, h4, h5⟩ := ih (pre ++ [c]) s hNL h
        refine ⟨h1, h2, h3, ?_, ?_⟩
        · intro k
          rcases h4 k with e | ⟨r1, hr1, hr2, hr3, hr4, hr5⟩
          · exact Or.inl e
          · right
            exact ⟨c :: r1, List.cons_prefix_cons.mpr ⟨rfl, hr1⟩, by simp, by rw [hr3]; simp, hr4, hr5⟩
        · intro r1 hr1 hr2
          obtain ⟨r', rfl, hr'⟩ := hpre r1 hr1 hr2
          by_cases hr0 : r' = []
          · subst hr0
            rcases h4 (pre ++ [c]) with e | ⟨_, _, _, _, hn, _⟩
            · exact ⟨m, by rw [e]; exact hget⟩
            · rw [hget] at hn; cases hn
          · have := h5 r' hr' hr0
            simpa using this

end MesonModel.Install
