/-
Helper lemmas for C11: `install_symlink`.  The link-free hypothesis `NL` of the other rules is generalised to what the
code needs: *no link on the path prefixes that `os.makedirs` traverses* (`LinksIn L`: links occur only at the keys `L`,
the plan's own link destinations, and no install directory of a symlink rule passes through one of them).
-/
import MesonModel.Install.IdemRules

namespace MesonModel.Install

theorem follow_eq_look_at (fs : FS) (k : Key) (h : ∀ t, fs.look k ≠ some (.link t)) : fs.follow k = fs.look k := by
  unfold FS.follow
  cases hl : fs.look k with
  | none => rfl
  | some n =>
    cases n with
    | link t => exact absurd hl (h t)
    | dir m => rfl
    | file m d t => rfl

/-- `os.makedirs` on a tree that may contain links, none of them on the path -/
theorem mkdirsGo_spec_path (mode : Nat) (ok : Bool) (rest : List Str) (pre : Key) (s : St)
    (hpath : ∀ r1, r1 <+: rest → r1 ≠ [] → ∀ t, s.fs.get (pre ++ r1) ≠ some (.link t))
    (h : (mkdirsGo mode ok pre rest s).failed = false) :
    (∀ k, (mkdirsGo mode ok pre rest s).fs.get k = s.fs.get k ∨
      (∃ r1, r1 <+: rest ∧ r1 ≠ [] ∧ k = pre ++ r1 ∧ s.fs.get k = none ∧
        (mkdirsGo mode ok pre rest s).fs.get k = some (.dir mode))) ∧
    (∀ r1, r1 <+: rest → r1 ≠ [] → ∃ m, (mkdirsGo mode ok pre rest s).fs.get (pre ++ r1) = some (.dir m)) := by
  induction rest generalizing pre s with
  | nil =>
    refine ⟨fun k => Or.inl rfl, ?_⟩
    intro r1 h1 h2
    exact absurd (List.prefix_nil.mp h1) h2
  | cons c t ih =>
    have hk0 : pre ++ [c] ≠ [] := by simp
    have hnl0 : ∀ tg, s.fs.look (pre ++ [c]) ≠ some (.link tg) := by
      intro tg; rw [look_of_ne_nil _ _ hk0]
      exact hpath [c] (by simp) (by simp) tg
    unfold mkdirsGo at h ⊢
    dsimp only at h ⊢
    rw [follow_eq_look_at _ _ hnl0, look_of_ne_nil _ _ hk0] at h ⊢
    have hpre : ∀ r1, r1 <+: c :: t → r1 ≠ [] → ∃ r', r1 = c :: r' ∧ r' <+: t := by
      intro r1 h1 h2
      cases r1 with
      | nil => exact absurd rfl h2
      | cons a r' =>
        have := List.cons_prefix_cons.mp h1
        exact ⟨r', by rw [this.1], this.2⟩
    cases hget : s.fs.get (pre ++ [c]) with
    | none =>
      try rw [hget] at h
      dsimp only at h ⊢
      simp only [Option.isSome_none, Bool.false_eq_true, if_false] at h ⊢
      have hpath' : ∀ r1, r1 <+: t → r1 ≠ [] → ∀ tg, (s.write (pre ++ [c]) (.dir mode)).fs.get (pre ++ [c] ++ r1) ≠ some (.link tg) := by
        intro r1 hr1 hr2 tg
        have hne : pre ++ [c] ++ r1 ≠ pre ++ [c] := by
          intro e
          have := congrArg List.length e
          exact hr2 (by simpa using this)
        simp only [St.write, get_set_other _ _ _ _ hne]
        have := hpath (c :: r1) (List.cons_prefix_cons.mpr ⟨rfl, hr1⟩) (by simp) tg
        simpa using this
      obtain ⟨h4, h5⟩ := ih (pre ++ [c]) (s.write (pre ++ [c]) (.dir mode)) hpath' h
      refine ⟨?_, ?_⟩
      · intro k
        rcases h4 k with e | ⟨r1, hr1, hr2, hr3, hr4, hr5⟩
        · by_cases hk : k = pre ++ [c]
          · right
            refine ⟨[c], by simp, by simp, hk, by rw [hk]; exact hget, ?_⟩
            rw [e, hk]; simp [St.write, get_set_same]
          · left; rw [e]; simp [St.write, get_set_other _ _ _ _ hk]
        · right
          refine ⟨c :: r1, List.cons_prefix_cons.mpr ⟨rfl, hr1⟩, by simp, by rw [hr3]; simp, ?_, hr5⟩
          have hne : k ≠ pre ++ [c] := by
            rw [hr3]; intro e
            have := congrArg List.length e
            exact hr2 (by simpa using this)
          simpa [St.write, get_set_other _ _ _ _ hne] using hr4
      · intro r1 hr1 hr2
        obtain ⟨r', rfl, hr'⟩ := hpre r1 hr1 hr2
        by_cases hr0 : r' = []
        · subst hr0
          rcases h4 (pre ++ [c]) with e | ⟨_, _, _, _, hn, _⟩
          · exact ⟨mode, by rw [e]; simp [St.write, get_set_same]⟩
          · simp [St.write, get_set_same] at hn
        · have := h5 r' hr' hr0
          simpa using this
    | some n =>
     cases n with
     | file _ _ _ => (try rw [hget] at h); simp [St.failed, St.fail] at h
     | link tg => exact absurd hget (by have := hnl0 tg; rwa [look_of_ne_nil _ _ hk0] at this)
     | dir m =>
      try rw [hget] at h
      dsimp only at h ⊢
      split at h
      · simp [St.failed, St.fail] at h
      · rename_i hc
        rw [if_neg hc]
        have hpath' : ∀ r1, r1 <+: t → r1 ≠ [] → ∀ tg, s.fs.get (pre ++ [c] ++ r1) ≠ some (.link tg) := by
          intro r1 hr1 hr2 tg
          have := hpath (c :: r1) (List.cons_prefix_cons.mpr ⟨rfl, hr1⟩) (by simp) tg
          simpa using this
        obtain ⟨h4, h5⟩ := ih (pre ++ [c]) s hpath' h
        refine ⟨?_, ?_⟩
        · intro k
          rcases h4 k with e | ⟨r1, hr1, hr2, hr3, hr4, hr5⟩
          · exact Or.inl e
          · right
            exact ⟨c :: r1, List.cons_prefix_cons.mpr ⟨rfl, hr1⟩, by simp, by rw [hr3]; simp, hr4, hr5⟩
        · intro r1 hr1 hr2
          obtain ⟨r', rfl, hr'⟩ := hpre r1 hr1 hr2
          by_cases hr0 : r' = []
          · subst hr0
            rcases h4 (pre ++ [c]) with e | ⟨_, _, _, _, hn, _⟩
            · exact ⟨m, by rw [e]; exact hget⟩
            · rw [hget] at hn; cases hn
          · have := h5 r' hr' hr0
            simpa using this

/-- `DirMaker.makedirs(path)` with no link on the path: only absent keys change, they become directories, and `path`
is a directory afterwards -/
theorem dmMakedirs_path_spec (cfg : Cfg) (hdry : cfg.dryRun = false) (path : Str) (b : Bool) (s : St)
    (hk : keyOf cfg.cwd path ≠ [])
    (hpath : ∀ q, q <+: keyOf cfg.cwd path → q ≠ [] → ∀ t, s.fs.get q ≠ some (.link t))
    (hf : (dmMakedirs cfg path b s).failed = false) :
    (∀ k, (dmMakedirs cfg path b s).fs.get k = s.fs.get k ∨
      (s.fs.get k = none ∧ (dmMakedirs cfg path b s).fs.get k = some (.dir (andNot 0o777 cfg.procUmask)))) ∧
    (∃ m, (dmMakedirs cfg path b s).fs.get (keyOf cfg.cwd path) = some (.dir m)) ∧
    (dmMakedirs cfg path b s).log = s.log := by
  unfold dmMakedirs at hf ⊢
  dsimp only at hf ⊢
  have hf1 : (mkdirs cfg path b s).failed = false := by
    split at hf
    · rename_i h1; rw [h1] at hf; cases hf
    · rename_i h1; simpa using h1
  simp only [hf1, Bool.false_eq_true, if_false]
  unfold mkdirs at hf1 ⊢
  simp only [hdry, Bool.false_eq_true, if_false, hk] at hf1 ⊢
  obtain ⟨m4, m5⟩ := mkdirsGo_spec_path _ b (keyOf cfg.cwd path) [] s (by simpa using hpath) hf1
  refine ⟨fun k => ?_, ?_, ?_⟩
  · rcases m4 k with e | ⟨_, _, _, _, hn, hd⟩
    · exact Or.inl e
    · exact Or.inr ⟨hn, hd⟩
  · have := m5 (keyOf cfg.cwd path) (List.prefix_refl _) hk
    simpa using this
  · -- the log is not touched by makedirs
    have : ∀ (rest : List Str) (pre : Key) (s' : St), (mkdirsGo (andNot 0o777 cfg.procUmask) b pre rest s').log = s'.log := by
      intro rest
      induction rest with
      | nil => intro _ _; rfl
      | cons c t ih =>
        intro pre s'
        unfold mkdirsGo
        dsimp only
        split
        · split
          · rfl
          · rw [ih]; rfl
        · split
          · rfl
          · rw [ih]
        · rfl
    exact this _ _ _

/-! ### the rule -/

/-- links occur only at the keys `L` -/
def LinksIn (L : List Key) (fs : FS) : Prop := ∀ k t, fs.get k = some (.link t) → k ∈ L

theorem LinksIn_of_NL {fs : FS} (h : NL fs) (L : List Key) : LinksIn L fs := fun k t e => absurd e (h k t)

def symKey (cfg : Cfg) (e : SymlinkEntry) : Key :=
  match destPath cfg e.name with
  | some l => keyOf cfg.cwd l
  | none => []

def selSym (cfg : Cfg) (e : SymlinkEntry) : Bool := shouldInstall cfg e.subproject e.tag

/-- what the proofs need of one `install_symlink` rule, given the plan's link destinations `L`: the link lies directly
in its install directory (the backend builds `name` as `install_dir / <name without separators>`), is one of `L`, and
the install directory does not pass through (or end at) a link destination -/
def SymOK (cfg : Cfg) (L : List Key) (e : SymlinkEntry) : Prop :=
  match destPath cfg e.installPath, destPath cfg e.name with
  | some fullDst, some fullLink =>
    keyOf cfg.cwd fullLink ≠ [] ∧ (keyOf cfg.cwd fullLink).dropLast = keyOf cfg.cwd fullDst ∧
    keyOf cfg.cwd fullDst ≠ [] ∧ keyOf cfg.cwd fullLink ∈ L ∧ ∀ q ∈ L, ¬ q <+: keyOf cfg.cwd fullDst
  | _, _ => True

instance (cfg : Cfg) (L : List Key) (e : SymlinkEntry) : Decidable (SymOK cfg L e) := by
  unfold SymOK
  split <;> infer_instance

section
variable (cfg : Cfg) (hdry : cfg.dryRun = false) (L : List Key)

include hdry in
theorem ruleSpecS_symlink : RuleSpecS (LinksIn L) (andNot 0o777 cfg.procUmask) (installSymlink cfg) (SymOK cfg L)
    (selSym cfg) (symKey cfg) (fun e _ => .link e.target) where
  skip := by intro s e h; unfold installSymlink; simp only [selSym] at h; simp [h]
  failed := by intro s e h; unfold installSymlink; simp [h]
  absent := fun _ => rfl
  spec := by
    intro s e hok hsel hI hf
    unfold installSymlink at hf ⊢
    unfold symKey
    simp only [selSym] at hsel
    by_cases hs : s.failed = true
    · simp only [hs, if_true] at hf; cases hf
    · simp only [hs, hsel, Bool.not_true, Bool.false_eq_true, if_false] at hf ⊢
      cases hd1 : destPath cfg e.installPath with
      | none => rw [hd1] at hf; simp [St.failed, St.fail] at hf
      | some fullDst =>
        cases hd2 : destPath cfg e.name with
        | none => rw [hd1, hd2] at hf; simp [St.failed, St.fail] at hf
        | some fullLink =>
          rw [hd1, hd2] at hf
          dsimp only at hf ⊢
          have hok' := hok
          unfold SymOK at hok'
          rw [hd1, hd2] at hok'
          obtain ⟨hkl, hparent, hkd, hinL, hoff⟩ := hok'
          by_cases hm : (dmMakedirs cfg fullDst true s).failed = true
          · simp [hm] at hf
          · have hm' : (dmMakedirs cfg fullDst true s).failed = false := by simpa using hm
            simp only [hm', Bool.false_eq_true, if_false] at hf ⊢
            have hpath : ∀ q, q <+: keyOf cfg.cwd fullDst → q ≠ [] → ∀ t, s.fs.get q ≠ some (.link t) :=
              fun q hq _ t e' => hoff q (hI q t e') hq
            obtain ⟨hfr, ⟨md, hdir⟩, _⟩ := dmMakedirs_path_spec cfg hdry fullDst true s hkd hpath hm'
            generalize hs1 : dmMakedirs cfg fullDst true s = s1 at hf hfr hdir hm' ⊢
            have hI1 : LinksIn L s1.fs := by
              intro k t e'
              rcases hfr k with h | ⟨_, h⟩
              · rw [h] at e'; exact hI k t e'
              · rw [h] at e'; cases e'
            have hne : keyOf cfg.cwd fullDst ≠ keyOf cfg.cwd fullLink := by
              rw [← hparent]; exact dropLast_ne_self _ hkl
            have hisd : ∀ s2 : St, (∀ k, k ≠ keyOf cfg.cwd fullLink → s2.fs.get k = s1.fs.get k) →
                isDirF s2 (keyOf cfg.cwd fullLink).dropLast = true := by
              intro s2 hsame
              rw [hparent]
              have hg : s2.fs.get (keyOf cfg.cwd fullDst) = some (.dir md) := by rw [hsame _ hne]; exact hdir
              unfold isDirF
              rw [follow_eq_look_at _ _ (by intro t; rw [look_of_ne_nil _ _ hkd, hg]; simp),
                look_of_ne_nil _ _ hkd, hg]
            unfold doSymlink at hf ⊢
            dsimp only at hf ⊢
            have hfin : ∀ (s2 : St), s2.failed = false → s2.fs.get (keyOf cfg.cwd fullLink) = none →
                (∀ k, k ≠ keyOf cfg.cwd fullLink → s2.fs.get k = s1.fs.get k) →
                LinksIn L (s2.write (keyOf cfg.cwd fullLink) (.link e.target)).fs ∧
                (s2.write (keyOf cfg.cwd fullLink) (.link e.target)).fs.get (keyOf cfg.cwd fullLink) = some (.link e.target) ∧
                ∀ k, k ≠ keyOf cfg.cwd fullLink →
                  (s2.write (keyOf cfg.cwd fullLink) (.link e.target)).fs.get k = s.fs.get k ∨
                  (s.fs.get k = none ∧ (s2.write (keyOf cfg.cwd fullLink) (.link e.target)).fs.get k =
                    some (.dir (andNot 0o777 cfg.procUmask))) := by
              intro s2 _ _ hsame
              refine ⟨?_, by simp [St.write, get_set_same], ?_⟩
              · intro k t e'
                by_cases hkk : k = keyOf cfg.cwd fullLink
                · rw [hkk]; exact hinL
                · simp only [St.write, get_set_other _ _ _ _ hkk] at e'
                  rw [hsame k hkk] at e'; exact hI1 k t e'
              · intro k hkk
                simp only [St.write, get_set_other _ _ _ _ hkk]
                rw [hsame k hkk]
                exact hfr k
            cases hg : s1.fs.get (keyOf cfg.cwd fullLink) with
            | none =>
              have hlex : lexists s1 (keyOf cfg.cwd fullLink) = false := by
                simp [lexists, look_of_ne_nil _ _ hkl, hg]
              have hisd' := hisd s1 (fun _ _ => rfl)
              simp only [hlex, hisd', hdry, Bool.false_eq_true, if_false, hm', Bool.not_true, Bool.or_self, if_true] at hf ⊢
              exact hfin s1 hm' hg (fun _ _ => rfl)
            | some n =>
              have hlex : lexists s1 (keyOf cfg.cwd fullLink) = true := by
                simp [lexists, look_of_ne_nil _ _ hkl, hg]
              cases n with
              | dir _ =>
                have : isLink s1 (keyOf cfg.cwd fullLink) = false := by simp [isLink, look_of_ne_nil _ _ hkl, hg]
                simp [hlex, this, St.failed, St.fail] at hf
              | file _ _ _ =>
                have : isLink s1 (keyOf cfg.cwd fullLink) = false := by simp [isLink, look_of_ne_nil _ _ hkl, hg]
                simp [hlex, this, St.failed, St.fail] at hf
              | link t0 =>
                have hil : isLink s1 (keyOf cfg.cwd fullLink) = true := by simp [isLink, look_of_ne_nil _ _ hkl, hg]
                have hrm : remove cfg (keyOf cfg.cwd fullLink) s1 = s1.erase (keyOf cfg.cwd fullLink) := by
                  simp [remove, hdry]
                have hef : (s1.erase (keyOf cfg.cwd fullLink)).failed = false := by
                  simpa [St.erase, St.failed] using hm'
                have hen : (s1.erase (keyOf cfg.cwd fullLink)).fs.get (keyOf cfg.cwd fullLink) = none := by
                  simp [St.erase, get_del_same]
                have heo : ∀ k, k ≠ keyOf cfg.cwd fullLink → (s1.erase (keyOf cfg.cwd fullLink)).fs.get k = s1.fs.get k := by
                  intro k hkk; simp [St.erase, get_del_other _ _ _ hkk]
                have hisd' := hisd _ heo
                have hlex2 : lexists (s1.erase (keyOf cfg.cwd fullLink)) (keyOf cfg.cwd fullLink) = false := by
                  simp [lexists, look_of_ne_nil _ _ hkl, hen]
                simp only [hlex, hil, Bool.not_true, Bool.false_eq_true, if_false, if_true, hrm, hef, hlex2, hisd', hdry,
                  Bool.or_self] at hf ⊢
                exact hfin _ hef hen heo

end

/-! ### plans without subdirectories: rules, then symlinks -/

theorem installBody_eq_rules_sym (cfg : Cfg) (p : Plan) (s : St) (h1 : p.subdirs = []) :
    installBody cfg p s = p.symlinks.foldl (installSymlink cfg) ((rulesOf p).foldl (stepRule cfg) s) := by
  unfold installBody rulesOf
  simp only [h1, List.foldl_nil, List.foldl_append, List.foldl_map]
  rfl

/-- destination keys of the selected symlink rules -/
def symKeys (cfg : Cfg) (p : Plan) : List Key := (p.symlinks.filter (selSym cfg)).map (symKey cfg)

section
variable {D : Key} (cfg : Cfg) (hdry : cfg.dryRun = false) (hD : D ≠ []) (hdest : Dest cfg D)

include hdry hD hdest in
/-- **exactness of a plan of file rules, empty directories and symlinks** (pairwise different destinations, no
install directory of a symlink rule passes through a link destination), on any link-free tree -/
theorem body_exact_sym (p : Plan) (h1 : p.subdirs = []) (hokR : ∀ r ∈ rulesOf p, ruleOk r)
    (hokS : ∀ e ∈ p.symlinks, SymOK cfg (symKeys cfg p) e)
    (hnd : (ruleKeys cfg p ++ symKeys cfg p).Nodup) (s : St) (hNL : NL s.fs)
    (hf : (installBody cfg p s).failed = false) :
    LinksIn (symKeys cfg p) (installBody cfg p s).fs ∧
    (∀ r ∈ rulesOf p, ruleSel cfg r = true →
      (installBody cfg p s).fs.get (ruleKey cfg r) = some (ruleNode cfg r (s.fs.get (ruleKey cfg r)))) ∧
    (∀ e ∈ p.symlinks, selSym cfg e = true → (installBody cfg p s).fs.get (symKey cfg e) = some (.link e.target)) ∧
    (∀ k, k ∉ ruleKeys cfg p ++ symKeys cfg p → (installBody cfg p s).fs.get k = s.fs.get k ∨
      (s.fs.get k = none ∧ (installBody cfg p s).fs.get k = some (.dir (andNot 0o777 cfg.procUmask)))) := by
  rw [installBody_eq_rules_sym cfg p s h1] at hf ⊢
  have RS := ruleSpecS_symlink cfg hdry (symKeys cfg p)
  have hf1 := foldl_ok_of_ok_S RS _ _ hf
  have hndR := (List.nodup_append.mp hnd).1
  have hndS := (List.nodup_append.mp hnd).2.1
  have hdisj := (List.nodup_append.mp hnd).2.2
  obtain ⟨n1, g1, fr1⟩ := fold_rules_exact_S (ruleSpecS_all cfg hdry hD hdest) (rulesOf p) hokR
    (pairwise_of_nodup _ _ _ hndR) s hNL hf1
  obtain ⟨n2, g2, fr2⟩ := fold_rules_exact_S RS p.symlinks hokS (pairwise_of_nodup _ _ _ hndS) _
    (LinksIn_of_NL n1 _) hf
  have memR : ∀ r ∈ rulesOf p, ruleSel cfg r = true → ruleKey cfg r ∈ ruleKeys cfg p :=
    fun r hr hs => List.mem_map.mpr ⟨r, List.mem_filter.mpr ⟨hr, hs⟩, rfl⟩
  have memS : ∀ e ∈ p.symlinks, selSym cfg e = true → symKey cfg e ∈ symKeys cfg p :=
    fun e he hs => List.mem_map.mpr ⟨e, List.mem_filter.mpr ⟨he, hs⟩, rfl⟩
  refine ⟨n2, ?_, g2, ?_⟩
  · intro r hr hs
    exact keep_node (g1 r hr hs) (fr2 _ (fun e he hse eq => hdisj _ (memR r hr hs) _ (memS e he hse) eq.symm))
  · intro k hk
    simp only [List.mem_append, not_or] at hk
    exact frame_trans (fr1 k (fun r hr hs eq => hk.1 (eq ▸ memR r hr hs)))
      (fr2 k (fun e he hs eq => hk.2 (eq ▸ memS e he hs)))

end

end MesonModel.Install
