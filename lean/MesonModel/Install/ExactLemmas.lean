/-
Helper lemmas for C11: what one file-installing rule leaves at its destination (exactness per rule) and
that repeating the rule changes nothing (idempotence per rule), on link-free trees and real runs.
-/
import MesonModel.Install.InstallLog3

namespace MesonModel.Install

/-- the documented permission rule: a declared `install_mode` wins, otherwise `install_umask` applied to the
default permissions, otherwise (`preserve`) the source's permissions -/
def modeRule (cfg : Cfg) (mode : Option FileMode) (srcMode : Nat) : Nat :=
  match mode with
  | some { perms := some p, chown := _ } => p
  | _ => match cfg.umask with
    | some u => sanitizedMode srcMode u
    | none => srcMode

/-- `os.makedirs` through `DirMaker`: only absent keys change, and they become directories -/
theorem dmMakedirs_fs_spec (cfg : Cfg) (hdry : cfg.dryRun = false) (path : Str) (b : Bool) (s : St) (hNL : NL s.fs)
    (hf : (dmMakedirs cfg path b s).failed = false) :
    NL (dmMakedirs cfg path b s).fs ∧
    ∀ k, (dmMakedirs cfg path b s).fs.get k = s.fs.get k ∨
      (s.fs.get k = none ∧ (dmMakedirs cfg path b s).fs.get k = some (.dir (andNot 0o777 cfg.procUmask))) := by
  unfold dmMakedirs at hf ⊢
  dsimp only at hf ⊢
  have hf1 : (mkdirs cfg path b s).failed = false := by
    split at hf
    · rename_i h1; rw [h1] at hf; cases hf
    · rename_i h1; simpa using h1
  simp only [hf1, Bool.false_eq_true, if_false]
  unfold mkdirs at hf1 ⊢
  simp only [hdry, Bool.false_eq_true, if_false] at hf1 ⊢
  by_cases hK : keyOf cfg.cwd path = []
  · simp only [hK, if_true] at hf1 ⊢
    split
    · exact ⟨hNL, fun k => Or.inl rfl⟩
    · rename_i hb; simp [hb, St.failed, St.fail] at hf1
  · simp only [hK, if_false] at hf1 ⊢
    obtain ⟨_, _, m3, m4, _⟩ := mkdirsGo_spec _ b (keyOf cfg.cwd path) [] s hNL hf1
    refine ⟨m3, fun k => ?_⟩
    rcases m4 k with e | ⟨_, _, _, _, hn, hd⟩
    · exact Or.inl e
    · exact Or.inr ⟨hn, hd⟩

/-- a successful `do_copyfile` of a regular file (not `--only-changed`): the destination holds the source's
content, mode and time stamp; every other key is as before or a newly created directory -/
theorem doCopyfile_file_spec (cfg : Cfg) (hdry : cfg.dryRun = false) (honly : cfg.onlyChanged = false)
    (fp to : Str) (m d t : Nat) (mk : Option Str) (fo : Option Bool) (s : St) (hNL : NL s.fs)
    (hk : keyOf cfg.cwd to ≠ [])
    (hf : (doCopyfile cfg fp (.file m d t) to mk fo s).1.failed = false) :
    (doCopyfile cfg fp (.file m d t) to mk fo s).2 = true ∧
    NL (doCopyfile cfg fp (.file m d t) to mk fo s).1.fs ∧
    (doCopyfile cfg fp (.file m d t) to mk fo s).1.fs.get (keyOf cfg.cwd to) = some (.file m d t) ∧
    ∀ k, k ≠ keyOf cfg.cwd to →
      (doCopyfile cfg fp (.file m d t) to mk fo s).1.fs.get k = s.fs.get k ∨
      (s.fs.get (keyOf cfg.cwd to) = none ∧ s.fs.get k = none ∧
        (doCopyfile cfg fp (.file m d t) to mk fo s).1.fs.get k = some (.dir (andNot 0o777 cfg.procUmask))) := by
  unfold doCopyfile at hf ⊢
  simp only [srcCopyable, Bool.not_true, Bool.false_eq_true, if_false] at hf ⊢
  have hP : (copyPrepare cfg (.file m d t) to mk s).1.failed = false := by
    by_cases e : (copyPrepare cfg (.file m d t) to mk s).1.failed = true
    · simp [e] at hf
    · simpa using e
  have hpay : ∀ od s1, copyPayload cfg fp (.file m d t) to od fo s1 = putFile cfg (keyOf cfg.cwd to) m d t s1 := by
    intro od s1; unfold copyPayload; rfl
  have hfile_nl : ∀ (s1 : St), NL s1.fs → NL (s1.write (keyOf cfg.cwd to) (.file m d t)).fs := by
    intro s1 h1 k' t'
    simp only [St.write]
    by_cases e : k' = keyOf cfg.cwd to
    · subst e; rw [get_set_same]; simp
    · rw [get_set_other _ _ _ _ e]; exact h1 k' t'
  rcases copyPrepare_cases cfg hdry (.file m d t) to mk s hNL hk hP with
    ⟨hA1, hA2⟩ | ⟨hB1, _, hB3⟩ | ⟨hC1, hC2, od, _, hC4⟩ | ⟨hD1, _, _, hD4⟩
  · -- preserving is impossible without --only-changed
    exfalso
    have hsp : ∀ k, shouldPreserve cfg (.file m d t) s k = false := by
      intro k; simp [shouldPreserve, honly]
    unfold copyPrepare at hA1 hP
    dsimp only at hA1 hP
    simp only [hsp, Bool.and_false, Bool.false_eq_true, if_false] at hA1 hP
    (repeat' split at hA1) <;> first
      | (simp at hA1; done)
      | (simp_all [St.failed, St.fail]; done)
  · simp only [hB1, hP, Bool.or_self, Bool.false_eq_true, if_false, hpay] at hf ⊢
    rw [hB3] at hf ⊢
    have hNL1 : NL (s.erase (keyOf cfg.cwd to)).fs := NL_del hNL _
    have hpf : (putFile cfg (keyOf cfg.cwd to) m d t (s.erase (keyOf cfg.cwd to))).failed = false := by
      by_cases e : (putFile cfg (keyOf cfg.cwd to) m d t (s.erase (keyOf cfg.cwd to))).failed = true
      · simp [e] at hf
      · simpa using e
    obtain ⟨_, _, _, hput⟩ := putFile_success cfg hdry _ m d t _ hk hNL1 hpf
    simp only [hpf, Bool.false_eq_true, if_false]
    rw [hput]
    refine ⟨trivial, hfile_nl _ hNL1, by simp [St.logLine, St.write, get_set_same], fun k hkk => Or.inl ?_⟩
    simp [St.logLine, St.write, St.erase, get_set_other _ _ _ _ hkk, get_del_other _ _ _ hkk]
  · simp only [hC1, hP, Bool.or_self, Bool.false_eq_true, if_false, hpay] at hf ⊢
    rw [hC4] at hf hP ⊢
    obtain ⟨hNL1, hspec⟩ := dmMakedirs_fs_spec cfg hdry od true s hNL hP
    have hpf : (putFile cfg (keyOf cfg.cwd to) m d t (dmMakedirs cfg od true s)).failed = false := by
      by_cases e : (putFile cfg (keyOf cfg.cwd to) m d t (dmMakedirs cfg od true s)).failed = true
      · simp [e] at hf
      · simpa using e
    obtain ⟨_, _, _, hput⟩ := putFile_success cfg hdry _ m d t _ hk hNL1 hpf
    simp only [hpf, Bool.false_eq_true, if_false]
    rw [hput]
    refine ⟨trivial, hfile_nl _ hNL1, by simp [St.logLine, St.write, get_set_same], fun k hkk => ?_⟩
    simp only [St.logLine, St.write, get_set_other _ _ _ _ hkk]
    rcases hspec k with e | ⟨e1, e2⟩
    · exact Or.inl e
    · exact Or.inr ⟨hC2, e1, e2⟩
  · simp only [hD1, hP, Bool.or_self, Bool.false_eq_true, if_false, hpay] at hf ⊢
    rw [hD4] at hf ⊢
    have hpf : (putFile cfg (keyOf cfg.cwd to) m d t s).failed = false := by
      by_cases e : (putFile cfg (keyOf cfg.cwd to) m d t s).failed = true
      · simp [e] at hf
      · simpa using e
    obtain ⟨_, _, _, hput⟩ := putFile_success cfg hdry _ m d t _ hk hNL hpf
    simp only [hpf, Bool.false_eq_true, if_false]
    rw [hput]
    refine ⟨trivial, hfile_nl _ hNL, by simp [St.logLine, St.write, get_set_same], fun k hkk => Or.inl ?_⟩
    simp [St.logLine, St.write, get_set_other _ _ _ _ hkk]

/-- `set_mode` on an installed file applies the documented permission rule and touches nothing else -/
theorem setMode_file_spec (cfg : Cfg) (hdry : cfg.dryRun = false) (k : Key) (hk : k ≠ []) (mode : Option FileMode)
    (s : St) (m d t : Nat) (hg : s.fs.get k = some (.file m d t)) :
    (setMode cfg k mode s).fs.get k = some (.file (modeRule cfg mode m) d t) ∧
    (∀ k', k' ≠ k → (setMode cfg k mode s).fs.get k' = s.fs.get k') ∧
    (setMode cfg k mode s).failed = s.failed := by
  have hl : s.fs.look k = some (.file m d t) := by rw [look_of_ne_nil _ _ hk]; exact hg
  have hlex : lexists s k = true := by simp [lexists, hl]
  have hsan : (sanitize cfg k s).fs.get k = some (.file (match cfg.umask with | some u => sanitizedMode m u | none => m) d t) ∧
      (∀ k', k' ≠ k → (sanitize cfg k s).fs.get k' = s.fs.get k') ∧ (sanitize cfg k s).failed = s.failed := by
    unfold sanitize
    cases hu : cfg.umask with
    | none => exact ⟨hg, fun _ _ => rfl, rfl⟩
    | some u =>
      simp only [hl]
      exact ⟨by simp [St.write, get_set_same], fun k' hk' => by simp [St.write, get_set_other _ _ _ _ hk'], rfl⟩
  have hch : ∀ p, (chmodNode k p s).fs.get k = some (.file p d t) ∧
      (∀ k', k' ≠ k → (chmodNode k p s).fs.get k' = s.fs.get k') ∧ (chmodNode k p s).failed = s.failed := by
    intro p
    unfold chmodNode
    simp only [hl]
    exact ⟨by simp [St.write, get_set_same], fun k' hk' => by simp [St.write, get_set_other _ _ _ _ hk'], rfl⟩
  unfold setMode modeRule
  simp only [hdry, Bool.false_eq_true, if_false]
  cases mode with
  | none => exact hsan
  | some fm =>
    obtain ⟨perms, chown⟩ := fm
    cases perms with
    | none =>
      cases chown <;> simp only [Option.isNone_none, Bool.not_false, Bool.not_true, Bool.and_true, Bool.and_false,
        hlex, Bool.true_and, Bool.false_and, Bool.false_eq_true, if_true, if_false] <;> exact hsan
    | some p =>
      cases chown <;> simp only [Option.isNone_some, Bool.false_and, hlex, Bool.not_true, Bool.and_false,
        Bool.false_eq_true, if_false] <;> exact hch p

/-- **exactness of one rule**: after a successful file-installing rule (data, header, man, target file; real
run, not `--only-changed`) the destination holds the source's content and time stamp with the permissions of
the documented rule -/
theorem installFileTo_exact (cfg : Cfg) (hdry : cfg.dryRun = false) (honly : cfg.onlyChanged = false)
    (e : DataEntry) (out outdir : Str) (fo : Option Bool) (s : St) (m d t : Nat) (hsrc : e.src = .file m d t)
    (hNL : NL s.fs) (hk : keyOf cfg.cwd out ≠ [])
    (hf : (installFileTo cfg e out outdir fo s).failed = false) :
    (installFileTo cfg e out outdir fo s).fs.get (keyOf cfg.cwd out) = some (.file (modeRule cfg e.mode m) d t) ∧
    ∀ k, k ≠ keyOf cfg.cwd out →
      (installFileTo cfg e out outdir fo s).fs.get k = s.fs.get k ∨
      (s.fs.get (keyOf cfg.cwd out) = none ∧ s.fs.get k = none ∧
        (installFileTo cfg e out outdir fo s).fs.get k = some (.dir (andNot 0o777 cfg.procUmask))) := by
  unfold installFileTo at hf ⊢
  dsimp only at hf ⊢
  rw [hsrc] at hf ⊢
  by_cases hc : (doCopyfile cfg e.path (.file m d t) out (some outdir) fo s).1.failed = true
  · simp [hc] at hf
  · have hc' : (doCopyfile cfg e.path (.file m d t) out (some outdir) fo s).1.failed = false := by simpa using hc
    simp only [hc', Bool.false_eq_true, if_false] at hf ⊢
    obtain ⟨h22, _, h2, h3⟩ := doCopyfile_file_spec cfg hdry honly e.path out m d t (some outdir) fo s hNL hk hc'
    have key : ∀ s2 : St, s2.fs = (doCopyfile cfg e.path (.file m d t) out (some outdir) fo s).1.fs →
        (setMode cfg (keyOf cfg.cwd out) e.mode s2).fs.get (keyOf cfg.cwd out) =
          some (.file (modeRule cfg e.mode m) d t) ∧
        ∀ k, k ≠ keyOf cfg.cwd out → (setMode cfg (keyOf cfg.cwd out) e.mode s2).fs.get k =
          (doCopyfile cfg e.path (.file m d t) out (some outdir) fo s).1.fs.get k := by
      intro s2 hs2
      obtain ⟨a, b, _⟩ := setMode_file_spec cfg hdry _ hk e.mode s2 m d t (by rw [hs2]; exact h2)
      exact ⟨a, fun k hkk => by rw [b k hkk, hs2]⟩
    simp only [h22, if_true]
    obtain ⟨a, b⟩ := key { (doCopyfile cfg e.path (.file m d t) out (some outdir) fo s).1 with didInstall := true } rfl
    exact ⟨a, fun k hkk => by rw [b k hkk]; exact h3 k hkk⟩

theorem installFileTo_NL (cfg : Cfg) (hdry : cfg.dryRun = false) (honly : cfg.onlyChanged = false)
    (e : DataEntry) (out outdir : Str) (fo : Option Bool) (s : St) (m d t : Nat) (hsrc : e.src = .file m d t)
    (hNL : NL s.fs) (hk : keyOf cfg.cwd out ≠ [])
    (hf : (installFileTo cfg e out outdir fo s).failed = false) : NL (installFileTo cfg e out outdir fo s).fs := by
  obtain ⟨h1, h2⟩ := installFileTo_exact cfg hdry honly e out outdir fo s m d t hsrc hNL hk hf
  intro k t' e'
  by_cases hkk : k = keyOf cfg.cwd out
  · subst hkk; rw [h1] at e'; cases e'
  · rcases h2 k hkk with h | ⟨_, _, h⟩
    · rw [h] at e'; exact hNL k t' e'
    · rw [h] at e'; cases e'

/-- **idempotence of one rule**: running a file-installing rule a second time leaves the tree exactly as the
first run left it -/
theorem installFileTo_idempotent (cfg : Cfg) (hdry : cfg.dryRun = false) (honly : cfg.onlyChanged = false)
    (e : DataEntry) (out outdir : Str) (fo : Option Bool) (s : St) (m d t : Nat) (hsrc : e.src = .file m d t)
    (hNL : NL s.fs) (hk : keyOf cfg.cwd out ≠ [])
    (hf1 : (installFileTo cfg e out outdir fo s).failed = false)
    (hf2 : (installFileTo cfg e out outdir fo (installFileTo cfg e out outdir fo s)).failed = false) :
    ∀ k, (installFileTo cfg e out outdir fo (installFileTo cfg e out outdir fo s)).fs.get k =
      (installFileTo cfg e out outdir fo s).fs.get k := by
  obtain ⟨a1, _⟩ := installFileTo_exact cfg hdry honly e out outdir fo s m d t hsrc hNL hk hf1
  have hNL1 := installFileTo_NL cfg hdry honly e out outdir fo s m d t hsrc hNL hk hf1
  obtain ⟨a2, b2⟩ := installFileTo_exact cfg hdry honly e out outdir fo _ m d t hsrc hNL1 hk hf2
  intro k
  by_cases hkk : k = keyOf cfg.cwd out
  · subst hkk; rw [a2, a1]
  · rcases b2 k hkk with h | ⟨h0, _, _⟩
    · exact h
    · rw [a1] at h0; cases h0

end MesonModel.Install
