/-
Helper lemmas for C11: the history `install; sources are rewritten; install --only-changed`.
-/
import MesonModel.Install.StateRules

namespace MesonModel.Install

/-- a source file was rewritten — any content, any permissions, a strictly later time stamp (by any amount) — or
left alone -/
def Rewritten (a b : Src) : Prop :=
  b = a ∨ ∃ m d t m' d' t', a = .file m d t ∧ b = .file m' d' t' ∧ t < t'

def touchData (g : Str → Src → Src) (e : DataEntry) : DataEntry := { e with src := g e.path e.src }

def touchTarget (g : Str → Src → Src) (t : TargetEntry) : TargetEntry := { t with src := g t.fname t.src }

/-- the same install rules over rewritten sources -/
def touchPlan (g : Str → Src → Src) (p : Plan) : Plan :=
  { p with targets := p.targets.map (touchTarget g), headers := p.headers.map (touchData g),
           man := p.man.map (touchData g), data := p.data.map (touchData g) }

theorem okData_touch (g : Str → Src → Src) (hg : ∀ path src, Rewritten src (g path src)) (e : DataEntry)
    (h : okData e) : okData (touchData g e) := by
  refine ⟨h.1, ?_⟩
  show noLinkSrc (g e.path e.src) = true
  rcases hg e.path e.src with h1 | ⟨_, _, _, _, _, _, _, h1, _⟩
  · rw [h1]; exact h.2
  · rw [h1]; rfl

theorem okTarget_touch (g : Str → Src → Src) (hg : ∀ path src, Rewritten src (g path src)) (t : TargetEntry)
    (h : okTarget t) : okTarget (touchTarget g t) := by
  refine ⟨h.1, ?_⟩
  show ∃ m d tt, g t.fname t.src = .file m d tt
  rcases hg t.fname t.src with h1 | ⟨_, _, _, m', d', t', _, h1, _⟩
  · rw [h1]; exact h.2
  · exact ⟨m', d', t', h1⟩

theorem filter_map_touch {α : Type} (tch : α → α) (sel : α → Bool) (key : α → Key)
    (hs : ∀ e, sel (tch e) = sel e) (hk : ∀ e, key (tch e) = key e) (l : List α) :
    ((l.map tch).filter sel).map key = (l.filter sel).map key := by
  induction l with
  | nil => rfl
  | cons a t ih =>
    simp only [List.map_cons]
    by_cases h : sel a = true
    · rw [List.filter_cons_of_pos (by rw [hs]; exact h), List.filter_cons_of_pos h, List.map_cons, List.map_cons, hk, ih]
    · rw [List.filter_cons_of_neg (by rw [hs]; exact h), List.filter_cons_of_neg h, ih]

theorem plannedKeys_touch (cfg : Cfg) (g : Str → Src → Src) (p : Plan) :
    plannedKeys cfg (touchPlan g p) = plannedKeys cfg p := by
  unfold plannedKeys touchPlan
  dsimp only
  rw [filter_map_touch (touchTarget g) (selTarget cfg) (targetKey cfg) (fun _ => rfl) (fun _ => rfl),
    filter_map_touch (touchData g) (selData cfg) (headerKey cfg) (fun _ => rfl) (fun _ => rfl),
    filter_map_touch (touchData g) (selData cfg) (dataKey cfg) (fun _ => rfl) (fun _ => rfl),
    filter_map_touch (touchData g) (selData cfg) (dataKey cfg) (fun _ => rfl) (fun _ => rfl)]

/-- after an installation, `--only-changed` over rewritten sources: a destination that holds the old source's node
ends up holding the new source's node — kept when the source was left alone, overwritten when it is newer -/
theorem ocNode_after_install (cfg : Cfg) (ho : cfg.onlyChanged = true) (g : Str → Src → Src) (e : DataEntry)
    (hg : Rewritten e.src (g e.path e.src)) :
    ocNode cfg e.mode (g e.path e.src) (some (fileNode cfg e)) = fileNode cfg (touchData g e) := by
  rcases hg with h1 | ⟨m, d, t, m', d', t', h0, h1, hlt⟩
  · have : fileNode cfg (touchData g e) = fileNode cfg e := by
      unfold fileNode touchData; dsimp only; rw [h1]
    rw [this, h1]
    cases hs : e.src with
    | file m d t =>
      have hf : fileNode cfg e = .file (modeRule cfg e.mode m) d t := by unfold fileNode; rw [hs]
      rw [hf, (ocNode_keeps cfg e.mode m d t _ d t ho (Nat.le_refl t)).1, modeRule_idem]
    | missing => unfold ocNode fileNode; rw [hs]
    | dir => unfold ocNode fileNode; rw [hs]
    | linkDangling _ => unfold ocNode fileNode; rw [hs]
    | linkFile _ _ _ _ => unfold ocNode fileNode; rw [hs]
    | linkDir _ => unfold ocNode fileNode; rw [hs]
  · have hf : fileNode cfg e = .file (modeRule cfg e.mode m) d t := by unfold fileNode; rw [h0]
    have hf' : fileNode cfg (touchData g e) = .file (modeRule cfg e.mode m') d' t' := by
      unfold fileNode touchData; dsimp only; rw [h1]
    rw [hf, hf', h1]
    refine (ocNode_not_keeps cfg e.mode m' d' t' _ ?_).1
    rintro ⟨_, _, _, t2, e2, hle⟩
    cases e2
    omega

theorem ocTargetNode_after_install (cfg : Cfg) (ho : cfg.onlyChanged = true) (g : Str → Src → Src) (t : TargetEntry)
    (hg : Rewritten t.src (g t.fname t.src)) :
    ocTargetNode cfg t.mode (g t.fname t.src) (some (targetNode cfg t)) = targetNode cfg (touchTarget g t) := by
  rcases hg with h1 | ⟨m, d, tt, m', d', t', h0, h1, hlt⟩
  · have : targetNode cfg (touchTarget g t) = targetNode cfg t := by
      unfold targetNode touchTarget; dsimp only; rw [h1]
    rw [this, h1]
    cases hs : t.src with
    | file m d tt =>
      have hf : targetNode cfg t = .file (modeRule cfg t.mode m) d tt := by unfold targetNode; rw [hs]
      rw [hf, (ocNode_keeps cfg t.mode m d tt _ d tt ho (Nat.le_refl tt)).2]
    | missing => unfold ocTargetNode targetNode; rw [hs]
    | dir => unfold ocTargetNode targetNode; rw [hs]
    | linkDangling _ => unfold ocTargetNode targetNode; rw [hs]
    | linkFile _ _ _ _ => unfold ocTargetNode targetNode; rw [hs]
    | linkDir _ => unfold ocTargetNode targetNode; rw [hs]
  · have hf : targetNode cfg t = .file (modeRule cfg t.mode m) d tt := by unfold targetNode; rw [h0]
    have hf' : targetNode cfg (touchTarget g t) = .file (modeRule cfg t.mode m') d' t' := by
      unfold targetNode touchTarget; dsimp only; rw [h1]
    rw [hf, hf', h1]
    refine (ocNode_not_keeps cfg t.mode m' d' t' _ ?_).2
    rintro ⟨_, _, _, t2, e2, hle⟩
    cases e2
    omega

section
variable {D : Key} (cfg : Cfg) (hdry : cfg.dryRun = false) (honly : cfg.onlyChanged = true) (hD : D ≠ [])
  (hdest : Dest cfg D)

include hdry honly hD hdest in
/-- `--only-changed` with rewritten sources over the tree an installation left: every selected rule's destination
holds the *current* source's node -/
theorem filesBody_touch_only_changed (p : Plan) (g : Str → Src → Src)
    (hg : ∀ path src, Rewritten src (g path src)) (hfo : FilesOnly p)
    (hokT : ∀ t ∈ p.targets, okTarget t)
    (hokH : ∀ e ∈ p.headers, okData e) (hokM : ∀ e ∈ p.man, okData e) (hokD : ∀ e ∈ p.data, okData e)
    (hnd : (plannedKeys cfg p).Nodup) (s : St) (hNL : NL s.fs)
    (hT : ∀ t ∈ p.targets, selTarget cfg t = true → s.fs.get (targetKey cfg t) = some (targetNode cfg t))
    (hH : ∀ e ∈ p.headers, selData cfg e = true → s.fs.get (headerKey cfg e) = some (fileNode cfg e))
    (hM : ∀ e ∈ p.man, selData cfg e = true → s.fs.get (dataKey cfg e) = some (fileNode cfg e))
    (hDd : ∀ e ∈ p.data, selData cfg e = true → s.fs.get (dataKey cfg e) = some (fileNode cfg e))
    (hf : (installBody cfg (touchPlan g p) s).failed = false) :
    (∀ t ∈ p.targets, selTarget cfg t = true →
      (installBody cfg (touchPlan g p) s).fs.get (targetKey cfg t) = some (targetNode cfg (touchTarget g t))) ∧
    (∀ e ∈ p.headers, selData cfg e = true →
      (installBody cfg (touchPlan g p) s).fs.get (headerKey cfg e) = some (fileNode cfg (touchData g e))) ∧
    (∀ e ∈ p.man, selData cfg e = true →
      (installBody cfg (touchPlan g p) s).fs.get (dataKey cfg e) = some (fileNode cfg (touchData g e))) ∧
    (∀ e ∈ p.data, selData cfg e = true →
      (installBody cfg (touchPlan g p) s).fs.get (dataKey cfg e) = some (fileNode cfg (touchData g e))) ∧
    (∀ k, k ∉ plannedKeys cfg p → (installBody cfg (touchPlan g p) s).fs.get k = s.fs.get k ∨
      (s.fs.get k = none ∧
        (installBody cfg (touchPlan g p) s).fs.get k = some (.dir (andNot 0o777 cfg.procUmask)))) := by
  have hfo' : FilesOnly (touchPlan g p) := hfo
  have hokT' : ∀ t ∈ (touchPlan g p).targets, okTarget t := by
    intro t ht
    obtain ⟨t0, ht0, rfl⟩ := List.mem_map.mp ht
    exact okTarget_touch g hg t0 (hokT t0 ht0)
  have okl : ∀ (l : List DataEntry), (∀ e ∈ l, okData e) → ∀ e ∈ l.map (touchData g), okData e := by
    intro l hl e he
    obtain ⟨e0, he0, rfl⟩ := List.mem_map.mp he
    exact okData_touch g hg e0 (hl e0 he0)
  have hnd' : (plannedKeys cfg (touchPlan g p)).Nodup := by rw [plannedKeys_touch]; exact hnd
  obtain ⟨_, gT, gH, gM, gD, fr⟩ := filesBody_exact_oc cfg hdry hD hdest (touchPlan g p) hfo' hokT'
    (okl p.headers hokH) (okl p.man hokM) (okl p.data hokD) hnd' s hNL hf
  refine ⟨?_, ?_, ?_, ?_, ?_⟩
  · intro t ht hs
    have := gT (touchTarget g t) (List.mem_map.mpr ⟨t, ht, rfl⟩) hs
    refine Eq.trans this ?_
    show some (ocTargetNode cfg t.mode (g t.fname t.src) (s.fs.get (targetKey cfg t))) = _
    rw [hT t ht hs, ocTargetNode_after_install cfg honly g t (hg _ _)]
  · intro e he hs
    have := gH (touchData g e) (List.mem_map.mpr ⟨e, he, rfl⟩) hs
    refine Eq.trans this ?_
    show some (ocNode cfg e.mode (g e.path e.src) (s.fs.get (headerKey cfg e))) = _
    rw [hH e he hs, ocNode_after_install cfg honly g e (hg _ _)]
  · intro e he hs
    have := gM (touchData g e) (List.mem_map.mpr ⟨e, he, rfl⟩) hs
    refine Eq.trans this ?_
    show some (ocNode cfg e.mode (g e.path e.src) (s.fs.get (dataKey cfg e))) = _
    rw [hM e he hs, ocNode_after_install cfg honly g e (hg _ _)]
  · intro e he hs
    have := gD (touchData g e) (List.mem_map.mpr ⟨e, he, rfl⟩) hs
    refine Eq.trans this ?_
    show some (ocNode cfg e.mode (g e.path e.src) (s.fs.get (dataKey cfg e))) = _
    rw [hDd e he hs, ocNode_after_install cfg honly g e (hg _ _)]
  · intro k hk
    exact fr k (by rw [plannedKeys_touch]; exact hk)

end

end MesonModel.Install
