/-
Helper lemmas for C11: the destination strings computed by the backend glue follow the documented rules.
-/
import MesonModel.Install.Glue
import MesonModel.Install.KeyLemmas

namespace MesonModel.Install

theorem lastField_ext (b num : Str) (h : '.' ∉ num) : lastField '.' (b ++ '.' :: num) = num := by
  unfold lastField
  rw [splitOn_append_sep, splitOn_noSep '.' num h]
  simp

theorem replaceGo_none (p0 : Char) (pt rep : Str) (fuel : Nat) (s : Str) (h : p0 ∉ s) :
    replaceGo p0 pt rep fuel s = s := by
  induction s generalizing fuel with
  | nil => cases fuel <;> rfl
  | cons c t ih =>
    cases fuel with
    | zero => rfl
    | succ f =>
      have hc : c ≠ p0 := fun e => h (by simp [e])
      have ht : p0 ∉ t := fun e => h (by simp [e])
      unfold replaceGo
      have : (p0 :: pt).isPrefixOf (c :: t) = false := by
        simp only [List.isPrefixOf, Bool.and_eq_false_imp, beq_iff_eq]
        intro e; exact absurd e.symm hc
      simp [this, ih f ht]

/-- a pattern at the very start, and nowhere else, is replaced once -/
theorem replaceAll_prefix (p0 : Char) (pt rep rest : Str) (h : p0 ∉ rest) :
    replaceAll p0 pt rep ((p0 :: pt) ++ rest) = rep ++ rest := by
  unfold replaceAll
  simp only [List.cons_append, List.length_cons]
  unfold replaceGo
  have hp : (p0 :: pt).isPrefixOf (p0 :: (pt ++ rest)) = true := by
    simp [List.isPrefixOf]
  simp only [hp, if_true, List.drop_left]
  rw [replaceGo_none _ _ _ _ _ h]

theorem endsWithSlash_append_noslash (x num : Str) (hx : endsWithSlash x = false) (hx0 : x ≠ []) (hn : '/' ∉ num) :
    endsWithSlash (x ++ num) = false := by
  rcases List.eq_nil_or_concat num with rfl | ⟨n', a, rfl⟩
  · simpa using hx
  · have ha : a ≠ '/' := fun e => hn (by simp [e])
    unfold endsWithSlash
    simp [ha]

theorem isAbs_join_rel (a b : Str) (ha : isAbs a = false) (hb : isAbs b = false) : isAbs (join a b) = false := by
  unfold join
  simp only [hb, Bool.false_eq_true, if_false]
  cases a with
  | nil => simpa using hb
  | cons c t =>
    have hc : c ≠ '/' := by intro e; subst e; simp [isAbs] at ha
    split <;> simp [isAbs, hc]

theorem join_rel_noslash (a b : Str) (ha : a ≠ []) (he : endsWithSlash a = false) (hb : isAbs b = false) :
    join a b = a ++ '/' :: b := by
  unfold join
  simp [hb, ha, he]

/-- **install_man** (no `install_dir`, no locale): a page `…name.N` goes to `<mandir>/man<N>/name.N` -/
theorem man_rule (manroot fname : Str) (hslash : '/' ∉ lastField '.' fname) (hnum : '{' ∉ lastField '.' fname)
    (hbn : '{' ∉ basename fname) :
    manInstallPath manroot none none fname =
      manroot ++ (('/' :: manStr) ++ lastField '.' fname ++ '/' :: basename fname) := by
  unfold manInstallPath
  simp only []
  have hb : isAbs (basename fname) = false := isAbs_false_of_noSep _ (basename_noSep fname)
  have hm : isAbs (manStr ++ lastField '.' fname) = false := rfl
  have hj1 : join mandirVar (manStr ++ lastField '.' fname) =
      mandirVar ++ '/' :: (manStr ++ lastField '.' fname) :=
    join_rel_noslash _ _ (by decide) (by decide) hm
  have he : endsWithSlash (mandirVar ++ '/' :: (manStr ++ lastField '.' fname)) = false := by
    have := endsWithSlash_append_noslash (mandirVar ++ ('/' :: manStr)) (lastField '.' fname) (by decide) (by decide) hslash
    simpa [List.append_assoc] using this
  rw [hj1, join_rel_noslash _ _ (by simp) he hb]
  have hshape : mandirVar ++ '/' :: (manStr ++ lastField '.' fname) ++ '/' :: basename fname =
      ('{' :: ['m', 'a', 'n', 'd', 'i', 'r', '}']) ++ (('/' :: manStr) ++ lastField '.' fname ++ '/' :: basename fname) := by
    simp [mandirVar]
  rw [hshape, replaceAll_prefix]
  intro hm'
  simp only [List.mem_append, List.mem_cons] at hm'
  rcases hm' with (h | h) | h | h
  · revert h; decide
  · exact hnum h
  · cases h
  · exact hbn h

/-! ### directories: components of the computed `install_path` -/

/-- **install_headers**: `<includedir>[/<subdir>][/<directory of the source> with preserve_path]` -/
theorem header_rule (incroot : Str) (sd : Option Str) (pres : Bool) (fname : Str)
    (hsd : isAbs (sd.getD []) = false) (hdn : isAbs (dirname fname) = false) :
    pureTail (hdrInstallPath incroot none sd pres fname) =
      pureTail incroot ++ (pureTail (sd.getD []) ++ if pres then pureTail (dirname fname) else []) := by
  unfold hdrInstallPath
  simp only []
  have hrel : isAbs (join (sd.getD []) (if pres then dirname fname else [])) = false := by
    apply isAbs_join_rel _ _ hsd
    cases pres
    · rfl
    · exact hdn
  rw [pureTail_join _ _ hrel]
  congr 1
  cases pres
  · simp only [Bool.false_eq_true, if_false]
    rw [pureTail_join _ _ rfl]; simp [pureTail, splitOn]
  · simp only [if_true]
    exact pureTail_join _ _ hdn

/-- **install_data**: `<install_dir>[/<directory of the source> with preserve_path]/<rename or basename>` -/
theorem data_rule (installDir : Str) (rename : Option Str) (pres : Bool) (fname : Str)
    (hdn : isAbs (dirname fname) = false) (hren : isAbs (rename.getD (basename fname)) = false) :
    pureTail (dataInstallPath installDir rename pres fname) =
      pureTail installDir ++ (if pres then pureTail (dirname fname) else []) ++
        pureTail (rename.getD (basename fname)) := by
  unfold dataInstallPath
  simp only []
  rw [pureTail_join _ _ hren]
  congr 1
  cases pres
  · simp only [Bool.false_eq_true, if_false]
    rw [pureTail_join _ _ rfl]; simp [pureTail, splitOn]
  · simp only [if_true]
    exact pureTail_join _ _ hdn

/-- **install_subdir**: `<prefix>/<install_dir>[/<name of the directory> unless strip_directory]` -/
theorem subdir_rule (pfx installDir srcDir : Str) (strip : Bool) (hd : isAbs installDir = false) :
    pureTail (subdirInstallPath pfx installDir srcDir strip) =
      pureTail pfx ++ pureTail installDir ++ (if strip then [] else pureTail (basename srcDir)) := by
  unfold subdirInstallPath
  simp only []
  cases strip
  · simp only [Bool.false_eq_true, if_false]
    rw [pureTail_join _ _ (isAbs_false_of_noSep _ (basename_noSep srcDir)), pureTail_join _ _ hd]
  · simp only [if_true]
    rw [pureTail_join _ _ hd]; simp

/-- an absolute `install_dir` of `install_subdir` replaces the prefix -/
theorem subdir_rule_abs (pfx installDir srcDir : Str) (hd : isAbs installDir = true) :
    subdirInstallPath pfx installDir srcDir true = installDir := by
  unfold subdirInstallPath join
  simp [hd]

/-- **install_symlink**: `<install_dir>/<name>` -/
theorem symlink_rule (installDir name : Str) (hn : isAbs name = false) :
    pureTail (symlinkName installDir name) = pureTail installDir ++ pureTail name :=
  pureTail_join _ _ hn

end MesonModel.Install
