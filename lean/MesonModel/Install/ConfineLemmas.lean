/-
Helper lemmas for C11: installer-level confinement.  `Inv D fs0 s` says that every key that is not under
DESTDIR's key `D` is bound as in the initial tree `fs0`, or is a strict ancestor of `D` that was absent and is a
directory now.  Every installer function preserves it.
-/
import MesonModel.Install.PathLemmas

namespace MesonModel.Install

/-! ### association-list facts -/

theorem get_del_other (fs : FS) (k k' : Key) (h : k' ≠ k) : (fs.del k).get k' = fs.get k' := by
  induction fs with
  | nil => rfl
  | cons e t ih =>
    obtain ⟨a, n⟩ := e
    by_cases he : a = k
    · have : FS.del ((a, n) :: t) k = FS.del t k := by simp [FS.del, he]
      rw [this, ih]
      have : a ≠ k' := by rw [he]; exact fun e => h e.symm
      simp [FS.get, this]
    · have : FS.del ((a, n) :: t) k = (a, n) :: FS.del t k := by simp [FS.del, he]
      rw [this]
      by_cases hk : a = k'
      · simp [FS.get, hk]
      · simp [FS.get, hk, ih]

theorem get_set_other (fs : FS) (k k' : Key) (n : Node) (h : k' ≠ k) : (fs.set k n).get k' = fs.get k' := by
  unfold FS.set
  have : k ≠ k' := fun e => h e.symm
  simp [FS.get, this, get_del_other fs k k' h]

theorem get_set_same (fs : FS) (k : Key) (n : Node) : (fs.set k n).get k = some n := by
  simp [FS.set, FS.get]

/-! ### the invariant -/

def Cmp (D k : Key) : Prop := D <+: k ∨ k <+: D

def Inv (D : Key) (fs0 : FS) (s : St) : Prop :=
  ∀ k, ¬ D <+: k →
    s.fs.get k = fs0.get k ∨
    (k <+: D ∧ fs0.look k = none ∧ ∃ m, s.fs.get k = some (.dir m))

theorem Inv_of_fs {D : Key} {fs0 : FS} {s s' : St} (h : s'.fs = s.fs) (hI : Inv D fs0 s) : Inv D fs0 s' := by
  intro k hk; rw [h]; exact hI k hk

theorem Inv_write {D : Key} {fs0 : FS} {s : St} (k0 : Key) (n : Node) (h : D <+: k0) (hI : Inv D fs0 s) :
    Inv D fs0 (s.write k0 n) := by
  intro k hk
  have hne : k ≠ k0 := fun e => hk (e ▸ h)
  simp only [St.write, get_set_other _ _ _ _ hne]
  exact hI k hk

theorem Inv_erase {D : Key} {fs0 : FS} {s : St} (k0 : Key) (h : D <+: k0) (hI : Inv D fs0 s) :
    Inv D fs0 (s.erase k0) := by
  intro k hk
  have hne : k ≠ k0 := fun e => hk (e ▸ h)
  simp only [St.erase, get_del_other _ _ _ hne]
  exact hI k hk

theorem Inv_fail {D : Key} {fs0 : FS} {s : St} (e : Err) (hI : Inv D fs0 s) : Inv D fs0 (s.fail e) :=
  Inv_of_fs rfl hI

theorem Inv_logLine {D : Key} {fs0 : FS} {s : St} (l : Str) (hI : Inv D fs0 s) : Inv D fs0 (s.logLine l) :=
  Inv_of_fs rfl hI

/-- creating a directory at an absent strict ancestor of `D` keeps the invariant -/
theorem Inv_write_dir_anc {D : Key} {fs0 : FS} {s : St} (k0 : Key) (m : Nat) (hpre : k0 <+: D)
    (hcur : s.fs.look k0 = none) (hI : Inv D fs0 s) :
    Inv D fs0 (s.write k0 (.dir m)) := by
  intro k hk
  by_cases hne : k = k0
  · subst hne
    right
    refine ⟨hpre, ?_, m, by simp [St.write, get_set_same]⟩
    by_cases hroot : k = []
    · simp [FS.look, hroot] at hcur
    · simp only [FS.look, hroot, if_false] at hcur ⊢
      rcases hI k hk with h1 | ⟨_, h2, _⟩
      · rw [← h1]; exact hcur
      · simpa [FS.look, hroot] using h2
  · simp only [St.write, get_set_other _ _ _ _ hne]
    exact hI k hk

theorem prefix_cmp {D k X : Key} (hk : k <+: X) (hX : Cmp D X) : Cmp D k := by
  rcases hX with h | h
  · exact (List.prefix_or_prefix_of_prefix h hk)
  · exact Or.inr (List.IsPrefix.trans hk h)

theorem follow_none_of_look_none {fs : FS} {k : Key} (h : fs.look k = none) : fs.follow k = none := by
  simp [FS.follow, h]

/-- `os.makedirs` on a key comparable with `D` -/
theorem Inv_mkdirsGo {D : Key} {fs0 : FS} (mode : Nat) (ok : Bool) (rest : List Str) (pre : Key) (s : St)
    (hc : Cmp D (pre ++ rest)) (hI : Inv D fs0 s) : Inv D fs0 (mkdirsGo mode ok pre rest s) := by
  induction rest generalizing pre s with
  | nil => exact hI
  | cons c t ih =>
    unfold mkdirsGo
    simp only []
    have hk : pre ++ [c] <+: pre ++ c :: t := by
      rw [show pre ++ c :: t = (pre ++ [c]) ++ t by simp]; exact List.prefix_append _ _
    have hc' : Cmp D ((pre ++ [c]) ++ t) := by simpa using hc
    split
    · split
      · exact Inv_fail _ hI
      · rename_i hlook
        apply ih _ _ hc'
        rcases prefix_cmp hk hc with h | h
        · exact Inv_write _ _ h hI
        · apply Inv_write_dir_anc _ _ h _ hI
          simpa using hlook
    · split
      · exact Inv_fail _ hI
      · exact ih _ _ hc' hI
    · exact Inv_fail _ hI

/-! ### primitives -/

section
variable {D : Key} {fs0 : FS} (cfg : Cfg)

theorem Inv_mkdirs (path : Str) (b : Bool) (s : St) (hc : Cmp D (keyOf cfg.cwd path)) (hI : Inv D fs0 s) :
    Inv D fs0 (mkdirs cfg path b s) := by
  unfold mkdirs
  split
  · exact hI
  · simp only []
    split
    · split
      · exact hI
      · exact Inv_fail _ hI
    · exact Inv_mkdirsGo _ _ _ [] s (by simpa using hc) hI

theorem Inv_dmMakedirs (path : Str) (b : Bool) (s : St) (hc : Cmp D (keyOf cfg.cwd path)) (hI : Inv D fs0 s) :
    Inv D fs0 (dmMakedirs cfg path b s) := by
  unfold dmMakedirs
  simp only []
  split
  · exact Inv_mkdirs cfg path b s hc hI
  · exact Inv_of_fs rfl (Inv_mkdirs cfg path b s hc hI)

theorem Inv_chmodNode (k : Key) (m : Nat) (s : St) (h : D <+: k) (hI : Inv D fs0 s) :
    Inv D fs0 (chmodNode k m s) := by
  unfold chmodNode
  split
  · exact Inv_fail _ hI
  · exact hI
  · exact Inv_write _ _ h hI
  · exact Inv_write _ _ h hI

theorem Inv_sanitize (k : Key) (s : St) (h : D <+: k) (hI : Inv D fs0 s) : Inv D fs0 (sanitize cfg k s) := by
  unfold sanitize
  split
  · exact hI
  · split
    · exact Inv_fail _ hI
    · exact hI
    · exact Inv_write _ _ h hI
    · exact Inv_write _ _ h hI

theorem Inv_setMode (k : Key) (m : Option FileMode) (s : St) (h : D <+: k) (hI : Inv D fs0 s) :
    Inv D fs0 (setMode cfg k m s) := by
  unfold setMode
  split
  · exact hI
  · split
    · exact Inv_sanitize cfg k s h hI
    · split
      · exact Inv_sanitize cfg k s h hI
      · split
        · exact Inv_fail _ hI
        · split
          · exact Inv_chmodNode k _ s h hI
          · exact Inv_sanitize cfg k s h hI

theorem Inv_remove (k : Key) (s : St) (h : D <+: k) (hI : Inv D fs0 s) : Inv D fs0 (remove cfg k s) := by
  unfold remove
  split
  · exact hI
  · exact Inv_erase _ h hI

theorem Inv_putFile (k : Key) (m d t : Nat) (s : St) (h : D <+: k) (hI : Inv D fs0 s) :
    Inv D fs0 (putFile cfg k m d t s) := by
  unfold putFile
  split
  · exact hI
  · split
    · exact Inv_fail _ hI
    · exact Inv_fail _ hI
    · split
      · exact Inv_write _ _ h hI
      · exact Inv_fail _ hI

theorem Inv_putLink (k : Key) (t : Str) (s : St) (h : D <+: k) (hI : Inv D fs0 s) :
    Inv D fs0 (putLink cfg k t s) := by
  unfold putLink
  split
  · exact hI
  · split
    · exact Inv_fail _ hI
    · split
      · exact Inv_write _ _ h hI
      · exact Inv_fail _ hI

end

end MesonModel.Install
