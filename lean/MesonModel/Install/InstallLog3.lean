/-
Helper lemmas for C11: the whole installation keeps the bookkeeping invariant; uninstall after install.
-/
import MesonModel.Install.InstallLog2

namespace MesonModel.Install

/-- a plan that neither reads nor creates symbolic links -/
structure LinkFree (p : Plan) : Prop where
  subdirs : ∀ e ∈ p.subdirs, WalkNoLinks e.walk
  targets : ∀ t ∈ p.targets, noLinkSrc t.src = true ∧ WalkNoLinks t.walk
  headers : ∀ e ∈ p.headers, noLinkSrc e.src = true
  man : ∀ e ∈ p.man, noLinkSrc e.src = true
  data : ∀ e ∈ p.data, noLinkSrc e.src = true
  symlinks : p.symlinks = []

theorem B_installBody (p : Plan) (o : Opts) (fs0 : FS) (s : St) (hp : PlanOK p) (hl : LinkFree p)
    (hdry : o.dryRun = false) (hd : isAbs (mkCfg p o).destdir = true) (hD : keyOfAbs (mkCfg p o).destdir ≠ [])
    (hfresh : ∀ k, keyOfAbs (mkCfg p o).destdir <+: k → fs0.get k = none)
    (h : B (keyOfAbs (mkCfg p o).destdir) (mkCfg p o).cwd fs0 s) :
    B (keyOfAbs (mkCfg p o).destdir) (mkCfg p o).cwd fs0 (installBody (mkCfg p o) p s) := by
  have hdest := dest_mkCfg p o hd
  have hdry' : (mkCfg p o).dryRun = false := by simp [mkCfg, hdry]
  unfold installBody
  dsimp only
  rw [hl.symlinks]
  simp only [List.foldl_nil]
  refine foldl_pres _ (fun e : DataEntry => basename e.path ≠ dotdot ∧ noLinkSrc e.src = true) _
    (fun s e he h => B_installDataOne _ hdry' hD hfresh hdest s e he.1 he.2 h) _
    (fun e he => ⟨hp.data e he, hl.data e he⟩) _ ?_
  refine foldl_pres _ (fun _ => True) _ (fun s e _ h => B_installEmptydir _ hdry' hD hfresh hdest s e h) _ (by simp) _ ?_
  refine foldl_pres _ (fun e : DataEntry => basename e.path ≠ dotdot ∧ noLinkSrc e.src = true) _
    (fun s e he h => B_installMan _ hdry' hD hfresh hdest s e he.1 he.2 h) _
    (fun e he => ⟨hp.man e he, hl.man e he⟩) _ ?_
  refine foldl_pres _ (fun e : DataEntry => basename e.path ≠ dotdot ∧ noLinkSrc e.src = true) _
    (fun s e he h => B_installHeader _ hdry' hD hfresh hdest s e he.1 he.2 h) _
    (fun e he => ⟨hp.headers e he, hl.headers e he⟩) _ ?_
  refine foldl_pres _ (fun t : TargetEntry => (WalkOK t.walk ∧ basename t.fname ≠ dotdot ∧
      basename (join p.buildDir (rstripSlash t.fname)) ≠ dotdot) ∧ (noLinkSrc t.src = true ∧ WalkNoLinks t.walk)) _
    (fun s t ht h => B_installTarget _ hdry' hD hfresh hdest p.buildDir rfl s t ht.1 ht.2 h) _
    (fun t ht => ⟨hp.targets t ht, hl.targets t ht⟩) _ ?_
  exact foldl_pres _ (fun e : SubdirEntry => WalkOK e.walk ∧ WalkNoLinks e.walk) _
    (fun s e he h => B_installSubdir _ hdry' hD hfresh hdest s e he.1 he.2 h) _
    (fun e he => ⟨hp.subdirs e he, hl.subdirs e he⟩) _ h

theorem logKeys_reverse (cwd : Str) (l : List Str) : logKeys cwd l.reverse = (logKeys cwd l).reverse := by
  unfold logKeys
  induction l with
  | nil => rfl
  | cons a t ih =>
    simp only [List.reverse_cons, List.filterMap_append, ih, List.filterMap_cons]
    cases lineKey cwd a <;> simp

theorem pairwise_of_left {α} (R : α → α → Prop) (l : List α) (h : ∀ a ∈ l, ∀ b, R a b) : l.Pairwise R := by
  induction l with
  | nil => exact List.Pairwise.nil
  | cons a t ih =>
    exact List.Pairwise.cons (fun b _ => h a (by simp) b) (ih (fun x hx => h x (by simp [hx])))

/-- the state at the end of the installer body, with both invariants, for a successful real run -/
theorem install_LG (p : Plan) (o : Opts) (fs : FS) (hp : PlanOK p) (hl : LinkFree p)
    (hdry : o.dryRun = false) (hne : (mkCfg p o).destdir ≠ []) (hD : keyOfAbs (mkCfg p o).destdir ≠ [])
    (hfresh : ∀ k, keyOfAbs (mkCfg p o).destdir <+: k → fs.get k = none)
    (hNL : NL fs) (hWF : WF fs) (hok : (install p o fs).err = none) :
    ∃ s, (install p o fs).log = s.log ++ s.dirs.reverse ∧ (install p o fs).fs = s.fs ∧
      Inv (keyOfAbs (mkCfg p o).destdir) fs s ∧ LG p.buildDir fs s := by
  have hd : isAbs (mkCfg p o).destdir = true := isAbs_resolveDestdir p.buildDir o.destdir hp.buildAbs hne
  have h0 : B (keyOfAbs (mkCfg p o).destdir) (mkCfg p o).cwd fs ({ fs := fs, log := logHeader } : St) := by
    refine ⟨fun k _ => Or.inl rfl, fun _ => ⟨hNL, hWF, ?_, ?_, ?_, ?_⟩⟩
    · intro k _ h1 h2; exact absurd h1 h2
    · intro k hk
      have : logKeys (mkCfg p o).cwd logHeader = [] := by
        unfold logKeys logHeader lineKey
        simp
      rw [this] at hk; cases hk
    · intro d hd'; simp [logKeys] at hd'
    · simp [logKeys]
  have hB := B_installBody p o fs _ hp hl hdry hd hD hfresh h0
  generalize hs : installBody (mkCfg p o) p { fs := fs, log := logHeader } = s at hB
  have herr : s.failed = false := by
    unfold install at hok
    dsimp only at hok
    rw [hs] at hok
    simp [St.failed, hok]
  refine ⟨s, ?_, ?_, hB.1, hB.2 herr⟩
  · unfold install; dsimp only; rw [hs]
  · unfold install; dsimp only; rw [hs]

/-- **uninstall after install**, on a fresh link-free destination, for a successful real run -/
theorem uninstall_install (p : Plan) (o : Opts) (fs : FS) (hp : PlanOK p) (hl : LinkFree p)
    (hdry : o.dryRun = false) (hne : (mkCfg p o).destdir ≠ []) (hD : keyOfAbs (mkCfg p o).destdir ≠ [])
    (hfresh : ∀ k, keyOfAbs (mkCfg p o).destdir <+: k → fs.get k = none)
    (hNL : NL fs) (hWF : WF fs) (hok : (install p o fs).err = none) :
    ∀ k, (uninstall p.buildDir (install p o fs).log (install p o fs).fs).get k = fs.get k := by
  have hd : isAbs (mkCfg p o).destdir = true := isAbs_resolveDestdir p.buildDir o.destdir hp.buildAbs hne
  -- the invariants at the end of the installer body
  have h0 : B (keyOfAbs (mkCfg p o).destdir) (mkCfg p o).cwd fs ({ fs := fs, log := logHeader } : St) := by
    refine ⟨fun k _ => Or.inl rfl, fun _ => ⟨hNL, hWF, ?_, ?_, ?_, ?_⟩⟩
    · intro k _ h1 h2; exact absurd h1 h2
    · intro k hk
      have : logKeys (mkCfg p o).cwd logHeader = [] := by
        unfold logKeys logHeader lineKey
        simp
      rw [this] at hk; cases hk
    · intro d hd'; simp [logKeys] at hd'
    · simp [logKeys]
  have hB := B_installBody p o fs _ hp hl hdry hd hD hfresh h0
  generalize hs : installBody (mkCfg p o) p { fs := fs, log := logHeader } = s at hB
  have herr : s.failed = false := by
    unfold install at hok
    dsimp only at hok
    rw [hs] at hok
    simp [St.failed, hok]
  have hg := hB.2 herr
  have hInv := hB.1
  have hlog : (install p o fs).log = s.log ++ s.dirs.reverse := by
    unfold install; dsimp only; rw [hs]
  have hfs : (install p o fs).fs = s.fs := by
    unfold install; dsimp only; rw [hs]
  rw [hlog, hfs, uninstall_eq]
  have hcwd : p.buildDir = (mkCfg p o).cwd := rfl
  rw [hcwd, logKeys_append, logKeys_reverse]
  apply removeKeys_restores
  · -- logged paths did not exist
    intro k hk
    rcases List.mem_append.mp hk with h | h
    · exact (hg.nf k h).2
    · exact (hg.dk k (List.mem_reverse.mp h)).2
  · -- everything else is as before
    intro k hk
    have hk1 : k ∉ logKeys (mkCfg p o).cwd s.log := fun h => hk (List.mem_append.mpr (Or.inl h))
    have hk2 : k ∉ logKeys (mkCfg p o).cwd s.dirs :=
      fun h => hk (List.mem_append.mpr (Or.inr (List.mem_reverse.mpr h)))
    by_cases h0' : fs.get k = none
    · rw [h0']
      by_cases hkn : k = []
      · subst hkn
        have : ¬ keyOfAbs (mkCfg p o).destdir <+: [] := fun h => hD (List.prefix_nil.mp h)
        rcases hInv [] this with e | ⟨_, hl', _⟩
        · rw [e]; exact h0'
        · simp [FS.look] at hl'
      · by_cases hget : s.fs.get k = none
        · exact hget
        · rcases hg.cl k hkn h0' hget with h | h
          · exact absurd h hk1
          · exact absurd h hk2
    · have hnD : ¬ keyOfAbs (mkCfg p o).destdir <+: k := fun h => h0' (hfresh k h)
      rcases hInv k hnD with e | ⟨_, hl', _⟩
      · exact e
      · exfalso
        by_cases hkn : k = []
        · subst hkn; simp [FS.look] at hl'
        · rw [look_of_ne_nil _ _ hkn] at hl'; exact h0' hl'
  · -- nothing old sits inside a logged path
    intro c hc hget hmem
    have hnone : fs.get c.dropLast = none := by
      rcases List.mem_append.mp hmem with h | h
      · exact (hg.nf _ h).2
      · exact (hg.dk _ (List.mem_reverse.mp h)).2
    have hne' : c.dropLast ≠ [] := by
      rcases List.mem_append.mp hmem with h | h
      · exact mem_logKeys_ne_nil _ _ _ h
      · exact mem_logKeys_ne_nil _ _ _ (List.mem_reverse.mp h)
    rcases hWF c hc hget with e | ⟨m, hm⟩
    · exact hne' e
    · rw [hnone] at hm; cases hm
  · -- children before parents
    unfold ChildrenFirst
    rw [List.pairwise_append]
    refine ⟨?_, ?_, ?_⟩
    · apply pairwise_of_left
      intro a ha b
      obtain ⟨⟨m, d, t, hm⟩, _⟩ := hg.nf a ha
      left; rw [hm]; rfl
    · rw [List.pairwise_reverse]
      apply hg.dord.imp
      intro a b hab
      exact Or.inr (Or.inr hab)
    · intro a ha b _
      obtain ⟨⟨m, d, t, hm⟩, _⟩ := hg.nf a ha
      left; rw [hm]; rfl

end MesonModel.Install
