/-
Helper lemmas for C11: the invariant tying the installer's log and `DirMaker.dirs` to the tree, on
link-free trees, for successful real (non dry-run) installations.
-/
import MesonModel.Install.ChainLemmas

namespace MesonModel.Install

/-- log/dirs bookkeeping agrees with the tree -/
structure LG (cwd : Str) (fs0 : FS) (s : St) : Prop where
  nl : NL s.fs
  wf : WF s.fs
  /-- every created path is named by the log or recorded by `DirMaker` -/
  cl : ∀ k, k ≠ [] → fs0.get k = none → s.fs.get k ≠ none → k ∈ logKeys cwd s.log ∨ k ∈ logKeys cwd s.dirs
  /-- what the log names is a file that did not exist before -/
  nf : ∀ k ∈ logKeys cwd s.log, (∃ m d t, s.fs.get k = some (.file m d t)) ∧ fs0.get k = none
  /-- what `DirMaker` recorded is a directory that did not exist before -/
  dk : ∀ d ∈ logKeys cwd s.dirs, (∃ m, s.fs.get d = some (.dir m)) ∧ fs0.get d = none
  /-- parents are recorded before their children -/
  dord : (logKeys cwd s.dirs).Pairwise (fun a b => a.dropLast ≠ b)

/-- the invariant is only claimed for runs that have not raised -/
def LGc (cwd : Str) (fs0 : FS) (s : St) : Prop := s.failed = false → LG cwd fs0 s

theorem logKeys_append (cwd : Str) (a b : List Str) : logKeys cwd (a ++ b) = logKeys cwd a ++ logKeys cwd b := by
  simp [logKeys, List.filterMap_append]

theorem lineKey_abs (cwd p : Str) (h : isAbs p = true) (hk : keyOfAbs p ≠ []) : lineKey cwd p = some (keyOfAbs p) := by
  obtain ⟨t, rfl⟩ := isAbs_elim p h
  unfold lineKey
  rw [keyOf_abs _ _ h]
  simp [hk]

theorem mem_logKeys_of_abs (cwd : Str) (l : List Str) (p : Str) (hp : p ∈ l) (h : isAbs p = true)
    (hk : keyOfAbs p ≠ []) : keyOfAbs p ∈ logKeys cwd l := by
  unfold logKeys
  rw [List.mem_filterMap]
  exact ⟨p, hp, lineKey_abs cwd p h hk⟩

theorem mem_logKeys_ne_nil (cwd : Str) (l : List Str) (k : Key) (h : k ∈ logKeys cwd l) : k ≠ [] := by
  unfold logKeys at h
  rw [List.mem_filterMap] at h
  obtain ⟨p, _, hp⟩ := h
  unfold lineKey at hp
  split at hp
  · cases hp
  · split at hp
    · cases hp
    · split at hp
      · cases hp
      · rename_i hne
        simp only [Option.some.injEq] at hp
        rw [← hp]; exact hne

theorem WF_prefix_present {fs : FS} (h : WF fs) : ∀ (n : Nat) (q k : Key), q.length = k.length + n → k <+: q → k ≠ [] →
    fs.get q ≠ none → fs.get k ≠ none := by
  intro n
  induction n with
  | zero =>
    intro q k hl hk _ hq
    have : k = q := hk.eq_of_length (by omega)
    rw [this]; exact hq
  | succ n ih =>
    intro q k hl hk hne hq
    have hqne : q ≠ [] := by intro e; subst e; simp at hl
    have hkq : k <+: q.dropLast := by
      apply List.prefix_of_prefix_length_le hk (dropLast_prefix q)
      simp; omega
    rcases h q hqne hq with e | ⟨m, hm⟩
    · rw [e] at hkq; exact absurd (List.prefix_nil.mp hkq) hne
    · exact ih q.dropLast k (by simp; omega) hkq hne (by rw [hm]; simp)

theorem existsF_false_iff {s : St} (h : NL s.fs) (k : Key) (hk : k ≠ []) :
    existsF s k = false ↔ s.fs.get k = none := by
  unfold existsF
  rw [follow_eq_look h, look_of_ne_nil _ _ hk]
  cases s.fs.get k <;> simp

theorem filterMap_eq_map' {α β} (f : α → Option β) (g : α → β) :
    ∀ (l : List α), (∀ x ∈ l, f x = some (g x)) → l.filterMap f = l.map g
  | [], _ => rfl
  | a :: t, h => by
    rw [List.filterMap_cons, h a (by simp), List.map_cons,
        filterMap_eq_map' f g t (fun x hx => h x (by simp [hx]))]

theorem isRoot_replicate (p : Str) (h : isAbs p = true) : IsRoot (List.replicate (initialSlashes p) '/') := by
  rcases initialSlashes_of_isAbs p h with e | e <;> simp [e, IsRoot, List.replicate]

/-- `DirMaker.makedirs` on a real, successful run keeps the bookkeeping invariant -/
theorem LGc_dmMakedirs {D : Key} {fs0 : FS} (cfg : Cfg) (hdry : cfg.dryRun = false) (path : Str) (b : Bool) (s : St)
    (hp : GoodDir D path) (hfresh : ∀ k, D <+: k → fs0.get k = none) (hInv : Inv D fs0 s)
    (h : LGc cfg.cwd fs0 s) : LGc cfg.cwd fs0 (dmMakedirs cfg path b s) := by
  intro hf
  have hR := isRoot_replicate path hp.1
  have hnorm := normpath_abs path hp.1
  have hKc := keyOfAbs_cleanKey path
  have hkey : keyOf cfg.cwd path = keyOfAbs path := keyOf_abs _ _ hp.1
  unfold dmMakedirs at hf ⊢
  dsimp only at hf ⊢
  -- the run of `os.makedirs` did not raise
  have hf1 : (mkdirs cfg path b s).failed = false := by
    split at hf
    · rename_i h1; rw [h1] at hf; cases hf
    · rename_i h1; simpa using h1
  simp only [hf1, Bool.false_eq_true, if_false]
  obtain ⟨L, hL, hsound, hcompl, hpair, _⟩ := dmCollect_spec cfg s hR (keyOfAbs path).length (keyOfAbs path) rfl hKc
    ((normpath path).length + 1) (by
      rw [hnorm, pureFormat_root hR]
      have := length_le_joinWith (keyOfAbs path) (fun c hc => (hKc c hc).1)
      simp; omega) []
  rw [← hnorm] at hL
  rw [hL]
  simp only [List.nil_append]
  -- keys of the collected strings
  have hLkey : ∀ x ∈ L, isAbs x = true ∧ keyOfAbs x ≠ [] ∧ keyOfAbs x <+: keyOfAbs path ∧
      existsF s (keyOfAbs x) = false := by
    intro x hx
    obtain ⟨q, hq1, hq2, hq3, hq4⟩ := hsound x hx
    have hxa : isAbs x = true := by rw [hq3]; exact isAbs_pureFormat hR q
    have hxk : keyOfAbs x = q := by rw [hq3]; exact keyOfAbs_pureFormat hR q (hKc.prefix hq1)
    rw [keyOf_abs _ _ hxa] at hq4
    exact ⟨hxa, by rw [hxk]; exact hq2, by rw [hxk]; exact hq1, hq4⟩
  have hLmap : logKeys cfg.cwd L.reverse = (L.map keyOfAbs).reverse := by
    unfold logKeys
    rw [← List.map_reverse]
    apply filterMap_eq_map'
    intro x hx
    have := hLkey x (List.mem_reverse.mp hx)
    exact lineKey_abs _ _ this.1 this.2.1
  unfold mkdirs at hf1 ⊢
  simp only [hdry, Bool.false_eq_true, if_false, hkey] at hf1 ⊢
  by_cases hK : keyOfAbs path = []
  · -- the root: nothing to create, nothing collected
    have hLnil : L = [] := by
      cases L with
      | nil => rfl
      | cons x t =>
        have := (hLkey x (by simp)).2.2.1
        rw [hK] at this
        exact absurd (List.prefix_nil.mp this) (hLkey x (by simp)).2.1
    subst hLnil
    simp only [hK, if_true] at hf1 ⊢
    split
    · have hs : s.failed = false := by rename_i hb; simpa [hb] using hf1
      simpa using h hs
    · rename_i hb; simp [hb, St.failed, St.fail] at hf1
  · simp only [hK, if_false] at hf1 ⊢
    have hs : s.failed = false := mkdirsGo_failed_sticky _ _ _ _ _ hf1
    have hg := h hs
    obtain ⟨m1, m2, m3, m4, m5⟩ := mkdirsGo_spec _ b (keyOfAbs path) [] s hg.nl hf1
    simp only [List.nil_append] at m4 m5
    -- a key that is present before stays as it is
    have hkeep : ∀ k, s.fs.get k ≠ none →
        (mkdirsGo (andNot 0o777 cfg.procUmask) b [] (keyOfAbs path) s).fs.get k = s.fs.get k := by
      intro k hk
      rcases m4 k with e | ⟨_, _, _, _, hn, _⟩
      · exact e
      · exact absurd hn hk
    refine ⟨m3, ?_, ?_, ?_, ?_, ?_⟩
    · -- WF
      intro c hc hget
      rcases m4 c with e | ⟨r1, hr1, hr2, hr3, _, _⟩
      · rw [e] at hget
        rcases hg.wf c hc hget with e' | ⟨m, hm⟩
        · exact Or.inl e'
        · exact Or.inr ⟨m, by rw [hkeep _ (by rw [hm]; simp), hm]⟩
      · by_cases hd : c.dropLast = []
        · exact Or.inl hd
        · right
          rw [hr3]
          exact m5 r1.dropLast (List.IsPrefix.trans (dropLast_prefix _) hr1) (by rw [← hr3]; exact hd)
    · -- created paths are named
      intro k hk hk0 hget
      rw [m1, m2, logKeys_append, hLmap]
      rcases m4 k with e | ⟨r1, hr1, hr2, hr3, hr4, _⟩
      · rw [e] at hget
        rcases hg.cl k hk hk0 hget with h1 | h1
        · exact Or.inl h1
        · exact Or.inr (List.mem_append.mpr (Or.inl h1))
      · right
        have hex : existsF s (keyOf cfg.cwd (pureFormat (List.replicate (initialSlashes path) '/') k)) = false := by
          rw [keyOf_abs _ _ (isAbs_pureFormat hR k), keyOfAbs_pureFormat hR k (hKc.prefix (hr3 ▸ hr1))]
          exact (existsF_false_iff hg.nl k hk).mpr hr4
        rcases hcompl k (hr3 ▸ hr1) hk hex with hin | ⟨q', hq1, hq2, hq3⟩
        · apply List.mem_append.mpr; right
          rw [List.mem_reverse, List.mem_map]
          exact ⟨_, hin, keyOfAbs_pureFormat hR k (hKc.prefix (hr3 ▸ hr1))⟩
        · exfalso
          have hq'ne : q' ≠ [] := by
            intro e; subst e; exact hk (List.prefix_nil.mp hq1)
          have hmem : q' ∈ logKeys cfg.cwd s.dirs := by
            have := mem_logKeys_of_abs cfg.cwd s.dirs _ (by simpa using hq3) (isAbs_pureFormat hR q')
              (by rw [keyOfAbs_pureFormat hR q' (hKc.prefix hq2)]; exact hq'ne)
            rwa [keyOfAbs_pureFormat hR q' (hKc.prefix hq2)] at this
          obtain ⟨⟨m, hm⟩, _⟩ := hg.dk q' hmem
          have := WF_prefix_present hg.wf (q'.length - k.length) q' k (by have := hq1.length_le; omega) hq1 hk
            (by rw [hm]; simp)
          exact this hr4
    · -- logged files
      intro k hk
      rw [m1] at hk
      obtain ⟨⟨m, d, t, hm⟩, h0⟩ := hg.nf k hk
      exact ⟨⟨m, d, t, by rw [hkeep _ (by rw [hm]; simp), hm]⟩, h0⟩
    · -- recorded directories
      intro d hd
      rw [m2, logKeys_append, hLmap] at hd
      rcases List.mem_append.mp hd with hd | hd
      · obtain ⟨⟨m, hm⟩, h0⟩ := hg.dk d hd
        exact ⟨⟨m, by rw [hkeep _ (by rw [hm]; simp), hm]⟩, h0⟩
      · rw [List.mem_reverse, List.mem_map] at hd
        obtain ⟨x, hx, rfl⟩ := hd
        obtain ⟨_, hx2, hx3, hx4⟩ := hLkey x hx
        have habs : s.fs.get (keyOfAbs x) = none := (existsF_false_iff hg.nl _ hx2).mp hx4
        refine ⟨m5 _ hx3 hx2, ?_⟩
        by_cases hDk : D <+: keyOfAbs x
        · exact hfresh _ hDk
        · rcases hInv _ hDk with e | ⟨_, hl, _⟩
          · rw [← e]; exact habs
          · simpa [look_of_ne_nil _ _ hx2] using hl
    · -- order
      rw [m2, logKeys_append, hLmap, List.pairwise_append]
      refine ⟨hg.dord, ?_, ?_⟩
      · rw [List.pairwise_reverse, List.pairwise_map]
        apply hpair.imp
        intro x y hxy e
        have := congrArg List.length e
        simp at this
        omega
      · intro e he d hd
        rw [List.mem_reverse, List.mem_map] at hd
        obtain ⟨x, hx, rfl⟩ := hd
        obtain ⟨_, hx2, _, hx4⟩ := hLkey x hx
        have habs : s.fs.get (keyOfAbs x) = none := (existsF_false_iff hg.nl _ hx2).mp hx4
        intro heq
        obtain ⟨⟨m, hm⟩, _⟩ := hg.dk e he
        have hene := mem_logKeys_ne_nil _ _ _ he
        rcases hg.wf e hene (by rw [hm]; simp) with e' | ⟨m', hm'⟩
        · rw [e'] at heq; exact hx2 heq.symm
        · rw [heq, habs] at hm'; cases hm'

/-! ### steps that keep log, dirs and the kind of every node -/

def kind : Option Node → Nat
  | none => 0
  | some (.dir _) => 1
  | some (.file _ _ _) => 2
  | some (.link _) => 3

theorem kind_none {x : Option Node} : kind x = 0 ↔ x = none := by
  cases x with
  | none => simp [kind]
  | some n => cases n <;> simp [kind]

theorem kind_dir {x : Option Node} : kind x = 1 ↔ ∃ m, x = some (.dir m) := by
  cases x with
  | none => simp [kind]
  | some n => cases n <;> simp [kind]

theorem kind_file {x : Option Node} : kind x = 2 ↔ ∃ m d t, x = some (.file m d t) := by
  cases x with
  | none => simp [kind]
  | some n => cases n <;> simp [kind]

theorem kind_link {x : Option Node} : kind x = 3 ↔ ∃ t, x = some (.link t) := by
  cases x with
  | none => simp [kind]
  | some n => cases n <;> simp [kind]

theorem LG_of_shape {cwd : Str} {fs0 : FS} {s s' : St} (hlog : logKeys cwd s'.log = logKeys cwd s.log)
    (hdirs : s'.dirs = s.dirs) (hk : ∀ k, kind (s'.fs.get k) = kind (s.fs.get k)) (h : LG cwd fs0 s) :
    LG cwd fs0 s' := by
  have hnone : ∀ k, s'.fs.get k = none ↔ s.fs.get k = none := fun k => by rw [← kind_none, hk, kind_none]
  have hdir : ∀ k, (∃ m, s'.fs.get k = some (.dir m)) ↔ ∃ m, s.fs.get k = some (.dir m) :=
    fun k => by rw [← kind_dir, hk, kind_dir]
  have hfile : ∀ k, (∃ m d t, s'.fs.get k = some (.file m d t)) ↔ ∃ m d t, s.fs.get k = some (.file m d t) :=
    fun k => by rw [← kind_file, hk, kind_file]
  refine ⟨?_, ?_, ?_, ?_, ?_, ?_⟩
  · intro k t e
    have : kind (s.fs.get k) = 3 := by rw [← hk, e]; rfl
    obtain ⟨t', ht'⟩ := kind_link.mp this
    exact h.nl k t' ht'
  · intro c hc hget
    rcases h.wf c hc (fun e => hget ((hnone c).mpr e)) with e | hm
    · exact Or.inl e
    · exact Or.inr ((hdir _).mpr hm)
  · intro k hk' h0 hget
    rw [hlog, hdirs]
    exact h.cl k hk' h0 (fun e => hget ((hnone k).mpr e))
  · intro k hk'
    rw [hlog] at hk'
    exact ⟨(hfile k).mpr (h.nf k hk').1, (h.nf k hk').2⟩
  · intro d hd
    rw [hdirs] at hd
    exact ⟨(hdir d).mpr (h.dk d hd).1, (h.dk d hd).2⟩
  · rw [hdirs]; exact h.dord

theorem LGc_of_shape {cwd : Str} {fs0 : FS} {s s' : St} (hlog : logKeys cwd s'.log = logKeys cwd s.log)
    (hdirs : s'.dirs = s.dirs) (hk : ∀ k, kind (s'.fs.get k) = kind (s.fs.get k))
    (hst : s'.failed = false → s.failed = false) (h : LGc cwd fs0 s) : LGc cwd fs0 s' :=
  fun hf => LG_of_shape hlog hdirs hk (h (hst hf))

theorem LGc_of_failed {cwd : Str} {fs0 : FS} {s : St} (h : s.failed = true) : LGc cwd fs0 s :=
  fun hf => by rw [h] at hf; cases hf

theorem kind_set_same_kind (fs : FS) (k : Key) (n : Node) (hn : kind (some n) = kind (fs.get k)) (k' : Key) :
    kind ((fs.set k n).get k') = kind (fs.get k') := by
  by_cases e : k' = k
  · subst e; rw [get_set_same]; exact hn
  · rw [get_set_other _ _ _ _ e]

theorem LGc_write_same_kind {cwd : Str} {fs0 : FS} (k : Key) (n : Node) (s : St)
    (hn : kind (some n) = kind (s.fs.get k)) (h : LGc cwd fs0 s) : LGc cwd fs0 (s.write k n) :=
  LGc_of_shape (s := s) (s' := s.write k n) rfl rfl (fun k' => kind_set_same_kind _ _ _ hn k')
    (fun hf => by simpa [St.write, St.failed] using hf) h

theorem LGc_chmodNode {cwd : Str} {fs0 : FS} (k : Key) (m : Nat) (s : St) (hk : k ≠ []) (h : LGc cwd fs0 s) :
    LGc cwd fs0 (chmodNode k m s) := by
  unfold chmodNode
  rw [look_of_ne_nil _ _ hk]
  split
  · exact LGc_of_failed rfl
  · exact h
  · rename_i m' hl
    exact LGc_write_same_kind _ _ _ (by rw [hl]; rfl) h
  · rename_i m' d t hl
    exact LGc_write_same_kind _ _ _ (by rw [hl]; rfl) h

theorem LGc_sanitize {cwd : Str} {fs0 : FS} (cfg : Cfg) (k : Key) (s : St) (hk : k ≠ []) (h : LGc cwd fs0 s) :
    LGc cwd fs0 (sanitize cfg k s) := by
  unfold sanitize
  rw [look_of_ne_nil _ _ hk]
  split
  · exact h
  · split
    · exact LGc_of_failed rfl
    · exact h
    · rename_i m' hl
      exact LGc_write_same_kind _ _ _ (by rw [hl]; rfl) h
    · rename_i m' d t hl
      exact LGc_write_same_kind _ _ _ (by rw [hl]; rfl) h

theorem LGc_setMode {cwd : Str} {fs0 : FS} (cfg : Cfg) (k : Key) (m : Option FileMode) (s : St) (hk : k ≠ [])
    (h : LGc cwd fs0 s) : LGc cwd fs0 (setMode cfg k m s) := by
  unfold setMode
  (repeat' split) <;> first
    | exact h
    | exact LGc_of_failed rfl
    | exact LGc_sanitize cfg k s hk h
    | exact LGc_chmodNode k _ s hk h

/-! ### installing one file -/

theorem dropLast_ne_self (k : Key) (h : k ≠ []) : k.dropLast ≠ k := by
  intro e
  have := congrArg List.length e
  cases k with
  | nil => exact h rfl
  | cons a t => simp at this

/-- a file is put at `kt` (absent or a file before, in a directory) and the log names it -/
theorem LG_put_file {cwd : Str} {fs0 : FS} {sA sF : St} (kt : Key) (hg : LG cwd fs0 sA)
    (hlog : logKeys cwd sF.log = logKeys cwd sA.log ++ [kt]) (hdirs : sF.dirs = sA.dirs)
    (hput : ∃ m d t, sF.fs.get kt = some (.file m d t))
    (hother : ∀ k, k ≠ kt → sF.fs.get k = sA.fs.get k)
    (hold : sA.fs.get kt = none ∨ ∃ m d t, sA.fs.get kt = some (.file m d t))
    (hpar : kt.dropLast = [] ∨ ∃ m, sA.fs.get kt.dropLast = some (.dir m))
    (hkt : kt ≠ []) (h0 : fs0.get kt = none) : LG cwd fs0 sF := by
  have hnotdir : ∀ m, sA.fs.get kt ≠ some (.dir m) := by
    intro m e
    rcases hold with h | ⟨_, _, _, h⟩ <;> rw [h] at e <;> cases e
  refine ⟨?_, ?_, ?_, ?_, ?_, ?_⟩
  · intro k t e
    by_cases hk : k = kt
    · subst hk; obtain ⟨m, d, t', h⟩ := hput; rw [h] at e; cases e
    · rw [hother k hk] at e; exact hg.nl k t e
  · intro c hc hget
    by_cases hk : c = kt
    · subst hk
      rcases hpar with e | ⟨m, hm⟩
      · exact Or.inl e
      · exact Or.inr ⟨m, by rw [hother _ (dropLast_ne_self c hc), hm]⟩
    · rw [hother c hk] at hget
      rcases hg.wf c hc hget with e | ⟨m, hm⟩
      · exact Or.inl e
      · right
        have : c.dropLast ≠ kt := fun e => hnotdir m (e ▸ hm)
        exact ⟨m, by rw [hother _ this, hm]⟩
  · intro k hk h0' hget
    rw [hlog, hdirs]
    by_cases hkk : k = kt
    · left; simp [hkk]
    · rw [hother k hkk] at hget
      rcases hg.cl k hk h0' hget with h | h
      · exact Or.inl (List.mem_append.mpr (Or.inl h))
      · exact Or.inr h
  · intro k hk
    rw [hlog] at hk
    by_cases hkk : k = kt
    · subst hkk; exact ⟨hput, h0⟩
    · rcases List.mem_append.mp hk with h | h
      · rw [hother k hkk]; exact hg.nf k h
      · simp at h; exact absurd h hkk
  · intro d hd
    rw [hdirs] at hd
    obtain ⟨⟨m, hm⟩, hd0⟩ := hg.dk d hd
    have : d ≠ kt := fun e => hnotdir m (e ▸ hm)
    exact ⟨⟨m, by rw [hother d this, hm]⟩, hd0⟩
  · rw [hdirs]; exact hg.dord

def noLinkSrc : Src → Bool
  | .file .. | .missing | .dir => true
  | _ => false

theorem NL_del {fs : FS} (h : NL fs) (k : Key) : NL (fs.del k) := by
  intro k' t
  by_cases e : k' = k
  · subst e; rw [get_del_same]; simp
  · rw [get_del_other _ _ _ e]; exact h k' t

theorem isDirF_iff {s : St} (h : NL s.fs) (p : Key) :
    isDirF s p = true ↔ (p = [] ∨ ∃ m, s.fs.get p = some (.dir m)) := by
  unfold isDirF
  rw [follow_eq_look h]
  by_cases hp : p = []
  · subst hp; simp [FS.look]
  · rw [look_of_ne_nil _ _ hp]
    cases hg : s.fs.get p with
    | none => simp [hp]
    | some n => cases n <;> simp [hp]

/-- a successful `copy2` of regular content on a link-free tree -/
theorem putFile_success (cfg : Cfg) (hdry : cfg.dryRun = false) (kt : Key) (m d t : Nat) (s1 : St)
    (hk : kt ≠ []) (hNL : NL s1.fs) (hf : (putFile cfg kt m d t s1).failed = false) :
    s1.failed = false ∧
    (s1.fs.get kt = none ∨ ∃ m' d' t', s1.fs.get kt = some (.file m' d' t')) ∧
    (kt.dropLast = [] ∨ ∃ m', s1.fs.get kt.dropLast = some (.dir m')) ∧
    putFile cfg kt m d t s1 = s1.write kt (.file m d t) := by
  unfold putFile at hf ⊢
  simp only [hdry, Bool.false_eq_true, if_false] at hf ⊢
  rw [look_of_ne_nil _ _ hk] at hf ⊢
  cases hg : s1.fs.get kt with
  | none =>
    rw [hg] at hf
    dsimp only at hf ⊢
    by_cases hp : isDirF s1 kt.dropLast = true
    · simp only [hp, if_true] at hf ⊢
      exact ⟨by simpa [St.write, St.failed] using hf, Or.inl (by first | rfl | trivial), (isDirF_iff hNL _).mp hp, (by first | rfl | trivial)⟩
    · simp [hp, St.failed, St.fail] at hf
  | some n =>
    cases n with
    | link t' => exact absurd hg (hNL kt t')
    | dir m' => rw [hg] at hf; simp [St.failed, St.fail] at hf
    | file m' d' t' =>
      rw [hg] at hf
      dsimp only at hf ⊢
      by_cases hp : isDirF s1 kt.dropLast = true
      · simp only [hp, if_true] at hf ⊢
        exact ⟨by simpa [St.write, St.failed] using hf, Or.inr ⟨m', d', t', (by first | rfl | trivial)⟩, (isDirF_iff hNL _).mp hp, (by first | rfl | trivial)⟩
      · simp [hp, St.failed, St.fail] at hf

theorem lineKey_comment (cwd l : Str) : lineKey cwd (preservingPrefix ++ l) = none := by
  have h : preservingPrefix = '#' :: " Preserving old file ".toList := by decide
  unfold lineKey
  rw [h]
  simp

theorem dmMakedirs_failed_sticky (cfg : Cfg) (path : Str) (b : Bool) (s : St)
    (h : (dmMakedirs cfg path b s).failed = false) : s.failed = false := by
  unfold dmMakedirs at h
  dsimp only at h
  have h1 : (mkdirs cfg path b s).failed = false := by
    split at h
    · rename_i e; rw [e] at h; cases h
    · rename_i e; simpa using e
  unfold mkdirs at h1
  split at h1
  · exact h1
  · dsimp only at h1
    split at h1
    · split at h1
      · exact h1
      · simp [St.failed, St.fail] at h1
    · exact mkdirsGo_failed_sticky _ _ _ _ _ h1

theorem copyPrepare_failed_sticky (cfg : Cfg) (hdry : cfg.dryRun = false) (src : Src) (to : Str) (mk : Option Str)
    (s : St) (h : (copyPrepare cfg src to mk s).1.failed = false) : s.failed = false := by
  unfold copyPrepare at h
  dsimp only at h
  (repeat' split at h) <;> first
    | (simp [St.failed, St.fail] at h; done)
    | exact dmMakedirs_failed_sticky _ _ _ _ h
    | exact h
    | (simp only [St.failed, St.logLine] at h ⊢; exact h)
    | (simp only [remove, hdry, St.erase, St.failed, Bool.false_eq_true, if_false] at h ⊢; exact h)

/-- the four ways `copyPrepare` can end without raising, on a link-free tree -/
theorem copyPrepare_cases (cfg : Cfg) (hdry : cfg.dryRun = false) (src : Src) (to : Str) (mk : Option Str) (s : St)
    (hNL : NL s.fs) (hk : keyOf cfg.cwd to ≠ [])
    (hf : (copyPrepare cfg src to mk s).1.failed = false) :
    ((copyPrepare cfg src to mk s).2.2 = true ∧
      (copyPrepare cfg src to mk s).1 = ({ s with preserved := s.preserved + 1 }).logLine (preservingPrefix ++ to)) ∨
    ((copyPrepare cfg src to mk s).2.2 = false ∧ (∃ m d t, s.fs.get (keyOf cfg.cwd to) = some (.file m d t)) ∧
      (copyPrepare cfg src to mk s).1 = s.erase (keyOf cfg.cwd to)) ∨
    ((copyPrepare cfg src to mk s).2.2 = false ∧ s.fs.get (keyOf cfg.cwd to) = none ∧
      ∃ od, mk = some od ∧ (copyPrepare cfg src to mk s).1 = dmMakedirs cfg od true s) ∨
    ((copyPrepare cfg src to mk s).2.2 = false ∧ s.fs.get (keyOf cfg.cwd to) = none ∧ mk = none ∧
      (copyPrepare cfg src to mk s).1 = s) := by
  unfold copyPrepare at hf ⊢
  dsimp only at hf ⊢
  have hlex : lexists s (keyOf cfg.cwd to) = (s.fs.get (keyOf cfg.cwd to)).isSome := by
    unfold lexists; rw [look_of_ne_nil _ _ hk]
  have hlink : isLink s (keyOf cfg.cwd to) = false := by
    unfold isLink; rw [look_of_ne_nil _ _ hk]
    cases hg : s.fs.get (keyOf cfg.cwd to) with
    | none => rfl
    | some n =>
      cases n with
      | link t => exact absurd hg (hNL _ t)
      | dir _ => rfl
      | file _ _ _ => rfl
  have hfile : isFileF s (keyOf cfg.cwd to) = true ↔ ∃ m d t, s.fs.get (keyOf cfg.cwd to) = some (.file m d t) := by
    unfold isFileF; rw [follow_eq_look hNL, look_of_ne_nil _ _ hk]
    cases hg : s.fs.get (keyOf cfg.cwd to) with
    | none => simp
    | some n => cases n <;> simp
  rw [hlex, hlink] at hf ⊢
  cases hg : s.fs.get (keyOf cfg.cwd to) with
  | none =>
    rw [hg] at hf
    simp only [Option.isSome_none, Bool.false_eq_true, if_false] at hf ⊢
    cases mk with
    | none => exact Or.inr (Or.inr (Or.inr ⟨(by first | rfl | trivial), (by first | rfl | trivial), (by first | rfl | trivial), (by first | rfl | trivial)⟩))
    | some od => exact Or.inr (Or.inr (Or.inl ⟨(by first | rfl | trivial), (by first | rfl | trivial), od, (by first | rfl | trivial), (by first | rfl | trivial)⟩))
  | some n =>
    rw [hg] at hf
    simp only [Option.isSome_some, if_true] at hf ⊢
    by_cases hisf : isFileF s (keyOf cfg.cwd to) = true
    · simp only [hisf, Bool.not_true, Bool.not_false, Bool.and_true, Bool.false_and, Bool.true_and,
        Bool.false_eq_true, if_false] at hf ⊢
      by_cases hpres : shouldPreserve cfg src s (keyOf cfg.cwd to) = true
      · simp only [hpres, if_true] at hf ⊢
        exact Or.inl ⟨(by first | rfl | trivial), (by first | rfl | trivial)⟩
      · simp only [hpres, Bool.false_eq_true, if_false] at hf ⊢
        refine Or.inr (Or.inl ⟨(by first | rfl | trivial), ?_, ?_⟩)
        · rw [← hg]; exact hfile.mp hisf
        · simp [remove, hdry]
    · have : isFileF s (keyOf cfg.cwd to) = false := by simpa using hisf
      simp [this, St.failed, St.fail] at hf

theorem logKeys_snoc_abs (cwd : Str) (l : List Str) (p : Str) (h : isAbs p = true) (hk : keyOfAbs p ≠ []) :
    logKeys cwd (l ++ [p]) = logKeys cwd l ++ [keyOfAbs p] := by
  rw [logKeys_append]
  simp [logKeys, lineKey_abs cwd p h hk]

/-- `do_copyfile` of a regular source on a real run keeps the bookkeeping invariant -/
theorem LGc_doCopyfile {D : Key} {fs0 : FS} (cfg : Cfg) (hdry : cfg.dryRun = false) (fp : Str) (src : Src)
    (to : Str) (mk : Option Str) (fo : Option Bool) (s : St)
    (ht : Good D to) (hmk : ∀ od, mk = some od → GoodDir D od) (hD : D ≠ []) (hsrc : noLinkSrc src = true)
    (hfresh : ∀ k, D <+: k → fs0.get k = none) (hInv : Inv D fs0 s) (h : LGc cfg.cwd fs0 s) :
    LGc cfg.cwd fs0 (doCopyfile cfg fp src to mk fo s).1 := by
  intro hf
  have hkt : keyOf cfg.cwd to = keyOfAbs to := keyOf_abs _ _ ht.1
  have hktne : keyOfAbs to ≠ [] := by
    intro e
    have := ht.2
    rw [e] at this
    exact hD (List.prefix_nil.mp this)
  have h0 : fs0.get (keyOfAbs to) = none := hfresh _ ht.2
  cases src with
  | missing => unfold doCopyfile at hf; simp [srcCopyable, St.failed, St.fail] at hf
  | dir => unfold doCopyfile at hf; simp [srcCopyable, St.failed, St.fail] at hf
  | linkDangling _ => cases hsrc
  | linkFile _ _ _ _ => cases hsrc
  | linkDir _ => cases hsrc
  | file m d t =>
    unfold doCopyfile at hf ⊢
    simp only [srcCopyable, Bool.not_true, Bool.false_eq_true, if_false] at hf ⊢
    -- `copyPrepare` did not raise
    have hP : (copyPrepare cfg (.file m d t) to mk s).1.failed = false := by
      by_cases e : (copyPrepare cfg (.file m d t) to mk s).1.failed = true
      · simp [e] at hf
      · simpa using e
    have hs : s.failed = false := copyPrepare_failed_sticky cfg hdry _ to mk s hP
    have hg := h hs
    have hpay : ∀ od s1, copyPayload cfg fp (.file m d t) to od fo s1 = putFile cfg (keyOf cfg.cwd to) m d t s1 := by
      intro od s1; unfold copyPayload; rfl
    rcases copyPrepare_cases cfg hdry (.file m d t) to mk s hg.nl (by rw [hkt]; exact hktne) hP with
      ⟨hA1, hA2⟩ | ⟨hB1, hB2, hB3⟩ | ⟨hC1, hC2, od, hC3, hC4⟩ | ⟨hD1, hD2, hD3, hD4⟩
    · -- preserved
      simp only [hA1, Bool.true_or, if_true]
      rw [hA2]
      exact LG_of_shape (s := s) (by simp [St.logLine, logKeys_append, logKeys, lineKey_comment]) rfl (fun _ => rfl) hg
    · -- an old file is replaced
      simp only [hB1, hP, Bool.or_self, Bool.false_eq_true, if_false, hpay] at hf ⊢
      rw [hB3] at hf ⊢
      have hNL1 : NL (s.erase (keyOf cfg.cwd to)).fs := NL_del hg.nl _
      have hpf : (putFile cfg (keyOf cfg.cwd to) m d t (s.erase (keyOf cfg.cwd to))).failed = false := by
        by_cases e : (putFile cfg (keyOf cfg.cwd to) m d t (s.erase (keyOf cfg.cwd to))).failed = true
        · simp [e] at hf
        · simpa using e
      obtain ⟨_, _, hpar, hput⟩ := putFile_success cfg hdry _ m d t _ (by rw [hkt]; exact hktne) hNL1 hpf
      simp only [hpf, Bool.false_eq_true, if_false]
      rw [hput, hkt] at *
      apply LG_put_file (sA := s) (keyOfAbs to) hg
      · simp only [St.logLine, St.write, St.erase]
        exact logKeys_snoc_abs _ _ _ ht.1 hktne
      · rfl
      · exact ⟨m, d, t, by simp [St.logLine, St.write, get_set_same]⟩
      · intro k hk
        simp [St.logLine, St.write, St.erase, get_set_other _ _ _ _ hk, get_del_other _ _ _ hk]
      · exact Or.inr hB2
      · rcases hpar with e | ⟨m', hm'⟩
        · exact Or.inl e
        · right
          refine ⟨m', ?_⟩
          simpa [St.erase, get_del_other _ _ _ (dropLast_ne_self _ hktne)] using hm'
      · exact hktne
      · exact h0
    · -- the destination directory is made first
      simp only [hC1, hP, Bool.or_self, Bool.false_eq_true, if_false, hpay] at hf ⊢
      rw [hC4] at hf hP ⊢
      have hg1 : LG cfg.cwd fs0 (dmMakedirs cfg od true s) :=
        LGc_dmMakedirs cfg hdry od true s (hmk od hC3) hfresh hInv h hP
      have hpf : (putFile cfg (keyOf cfg.cwd to) m d t (dmMakedirs cfg od true s)).failed = false := by
        by_cases e : (putFile cfg (keyOf cfg.cwd to) m d t (dmMakedirs cfg od true s)).failed = true
        · simp [e] at hf
        · simpa using e
      obtain ⟨_, hold, hpar, hput⟩ := putFile_success cfg hdry _ m d t _ (by rw [hkt]; exact hktne) hg1.nl hpf
      simp only [hpf, Bool.false_eq_true, if_false]
      rw [hput, hkt] at *
      apply LG_put_file (sA := dmMakedirs cfg od true s) (keyOfAbs to) hg1
      · simp only [St.logLine, St.write]
        exact logKeys_snoc_abs _ _ _ ht.1 hktne
      · rfl
      · exact ⟨m, d, t, by simp [St.logLine, St.write, get_set_same]⟩
      · intro k hk
        simp [St.logLine, St.write, get_set_other _ _ _ _ hk]
      · exact hold
      · exact hpar
      · exact hktne
      · exact h0
    · -- the directory is there already
      simp only [hD1, hP, Bool.or_self, Bool.false_eq_true, if_false, hpay] at hf ⊢
      rw [hD4] at hf ⊢
      have hpf : (putFile cfg (keyOf cfg.cwd to) m d t s).failed = false := by
        by_cases e : (putFile cfg (keyOf cfg.cwd to) m d t s).failed = true
        · simp [e] at hf
        · simpa using e
      obtain ⟨_, hold, hpar, hput⟩ := putFile_success cfg hdry _ m d t _ (by rw [hkt]; exact hktne) hg.nl hpf
      simp only [hpf, Bool.false_eq_true, if_false]
      rw [hput, hkt] at *
      apply LG_put_file (sA := s) (keyOfAbs to) hg
      · simp only [St.logLine, St.write]
        exact logKeys_snoc_abs _ _ _ ht.1 hktne
      · rfl
      · exact ⟨m, d, t, by simp [St.logLine, St.write, get_set_same]⟩
      · intro k hk
        simp [St.logLine, St.write, get_set_other _ _ _ _ hk]
      · exact hold
      · exact hpar
      · exact hktne
      · exact h0

end MesonModel.Install
