/-
Helper lemmas for C11: `--only-changed` after an installation — every file rule preserves its destination and
re-applies the same permissions.
-/
import MesonModel.Install.FilesLemmas

namespace MesonModel.Install

theorem andNot_mod (x u : Nat) (hx : x < 512) : andNot x u = andNot x (u % 512) := by
  apply Nat.eq_of_testBit_eq
  intro i
  simp only [andNot, Nat.testBit_xor, Nat.testBit_and]
  have hm : (u % 512).testBit i = (decide (i < 9) && u.testBit i) := by
    have := Nat.testBit_mod_two_pow u 9 i
    simpa using this
  rw [hm]
  by_cases hi : i < 9
  · simp [hi]
  · have : x.testBit i = false := Nat.testBit_lt_two_pow (by
      calc x < 2 ^ 9 := hx
        _ ≤ 2 ^ i := Nat.pow_le_pow_right (by decide) (by omega))
    simp [this]

def smBase (b : Bool) : Nat := if b then 0o777 else 0o666

theorem sm_idem_small : ∀ b : Bool, ∀ v : Fin 512,
    andNot (smBase (decide (andNot (smBase b) v.val &&& 0o111 ≠ 0))) v.val = andNot (smBase b) v.val := by
  decide +kernel

/-- applying the default-permission rule twice is applying it once -/
theorem sanitizedMode_idem (cur u : Nat) : sanitizedMode (sanitizedMode cur u) u = sanitizedMode cur u := by
  have key : ∀ c : Nat, sanitizedMode c u = andNot (smBase (decide (c &&& 0o111 ≠ 0))) (u % 512) := by
    intro c
    unfold sanitizedMode smBase
    by_cases h : c &&& 0o111 ≠ 0
    · rw [if_pos h, decide_eq_true h]; exact andNot_mod _ _ (by decide)
    · rw [if_neg h, decide_eq_false h]; exact andNot_mod _ _ (by decide)
  rw [key (sanitizedMode cur u), key cur]
  exact sm_idem_small (decide (cur &&& 0o111 ≠ 0)) ⟨u % 512, Nat.mod_lt _ (by decide)⟩

theorem modeRule_idem (cfg : Cfg) (mode : Option FileMode) (m : Nat) :
    modeRule cfg mode (modeRule cfg mode m) = modeRule cfg mode m := by
  unfold modeRule
  cases mode with
  | none => cases cfg.umask <;> simp [sanitizedMode_idem]
  | some fm =>
    obtain ⟨perms, chown⟩ := fm
    cases perms with
    | none => cases cfg.umask <;> simp [sanitizedMode_idem]
    | some p => rfl

/-- a rule step that leaves the tree alone when its destination already holds its node -/
structure RuleFixed {α : Type} (f : St → α → St) (ok : α → Prop) (sel : α → Bool) (key : α → Key) (node : α → Node) :
    Prop where
  skip : ∀ s e, sel e = false → f s e = s
  failed : ∀ s e, s.failed = true → f s e = s
  fixed : ∀ s e, ok e → sel e = true → NL s.fs → s.fs.get (key e) = some (node e) → (f s e).failed = false →
    ∀ k, (f s e).fs.get k = s.fs.get k

theorem fold_fixed {α : Type} {f : St → α → St} {ok : α → Prop} {sel : α → Bool} {key : α → Key} {node : α → Node}
    (R : RuleFixed f ok sel key node) (l : List α) (hok : ∀ e ∈ l, ok e) (s : St) (hNL : NL s.fs)
    (hthere : ∀ e ∈ l, sel e = true → s.fs.get (key e) = some (node e))
    (hf : (l.foldl f s).failed = false) : ∀ k, (l.foldl f s).fs.get k = s.fs.get k := by
  induction l generalizing s with
  | nil => exact fun _ => rfl
  | cons a t ih =>
    simp only [List.foldl_cons] at hf ⊢
    have hstick : ∀ (l : List α) (s : St), s.failed = true → l.foldl f s = s := by
      intro l
      induction l with
      | nil => intro s _; rfl
      | cons b t' ih' => intro s h; simp only [List.foldl_cons]; rw [R.failed s b h]; exact ih' s h
    have hs1 : (f s a).failed = false := by
      by_cases e : (f s a).failed = true
      · rw [hstick t _ e] at hf; rw [hf] at e; cases e
      · simpa using e
    by_cases hsel : sel a = true
    · have hsame := R.fixed s a (hok a (by simp)) hsel hNL (hthere a (by simp) hsel) hs1
      have hNL1 : NL (f s a).fs := fun k t' e' => hNL k t' (by rw [← hsame k]; exact e')
      have := ih (fun e he => hok e (by simp [he])) (f s a) hNL1
        (fun e he hse => by rw [hsame]; exact hthere e (by simp [he]) hse) hf
      exact fun k => by rw [this k, hsame k]
    · have hsel' : sel a = false := by simpa using hsel
      rw [R.skip s a hsel'] at hf ⊢
      exact ih (fun e he => hok e (by simp [he])) s hNL (fun e he hse => hthere e (by simp [he]) hse) hf

section
variable {D : Key} (cfg : Cfg) (hdry : cfg.dryRun = false) (honly : cfg.onlyChanged = true) (hD : D ≠ [])
  (hdest : Dest cfg D)

include hdry honly in
/-- `--only-changed`: a destination that already holds the source's content with the source's time stamp is
preserved -/
theorem doCopyfile_preserved (fp to : Str) (m d t m' : Nat) (mk : Option Str) (fo : Option Bool) (s : St)
    (hNL : NL s.fs) (hk : keyOf cfg.cwd to ≠ []) (hg : s.fs.get (keyOf cfg.cwd to) = some (.file m' d t)) :
    (doCopyfile cfg fp (.file m d t) to mk fo s).2 = false ∧
    (doCopyfile cfg fp (.file m d t) to mk fo s).1.fs = s.fs ∧
    (doCopyfile cfg fp (.file m d t) to mk fo s).1.failed = s.failed := by
  have hlook : s.fs.look (keyOf cfg.cwd to) = some (.file m' d t) := by rw [look_of_ne_nil _ _ hk]; exact hg
  have hlex : lexists s (keyOf cfg.cwd to) = true := by simp [lexists, hlook]
  have hfol : s.fs.follow (keyOf cfg.cwd to) = some (.file m' d t) := by rw [follow_eq_look hNL]; exact hlook
  have hisf : isFileF s (keyOf cfg.cwd to) = true := by simp [isFileF, hfol]
  have hpres : shouldPreserve cfg (.file m d t) s (keyOf cfg.cwd to) = true := by
    simp [shouldPreserve, honly, hfol]
  have hP : copyPrepare cfg (.file m d t) to mk s =
      (({ s with preserved := s.preserved + 1 }).logLine (preservingPrefix ++ to), dirname to, true) := by
    unfold copyPrepare
    simp [hlex, hisf, hpres]
  unfold doCopyfile
  simp only [srcCopyable, Bool.not_true, Bool.false_eq_true, if_false, hP, Bool.true_or, if_true]
  exact ⟨trivial, rfl, rfl⟩

include hdry honly hD hdest in
theorem fileRule_fixed (e : DataEntry) (hok : okData e) (out od : Str) (fo : Option Bool) (s : St)
    (hg : Good D out) (hNL : NL s.fs) (hthere : s.fs.get (keyOf cfg.cwd out) = some (fileNode cfg e))
    (hf : (installFileTo cfg e out od fo s).failed = false) :
    ∀ k, (installFileTo cfg e out od fo s).fs.get k = s.fs.get k := by
  have hk := hg.key_ne_nil cfg hD
  by_cases hfile : ∃ m d t, e.src = .file m d t
  · obtain ⟨m, d, t, hsrc⟩ := hfile
    have hnode : s.fs.get (keyOf cfg.cwd out) = some (.file (modeRule cfg e.mode m) d t) := by
      rw [hthere]; unfold fileNode; rw [hsrc]
    obtain ⟨p2, pfs, pfail⟩ := doCopyfile_preserved cfg hdry honly e.path out m d t _ (some od) fo s hNL hk hnode
    unfold installFileTo at hf ⊢
    dsimp only at hf ⊢
    rw [hsrc] at hf ⊢
    by_cases hc : (doCopyfile cfg e.path (.file m d t) out (some od) fo s).1.failed = true
    · simp [hc] at hf
    · have hc' : (doCopyfile cfg e.path (.file m d t) out (some od) fo s).1.failed = false := by simpa using hc
      simp only [hc', p2, Bool.false_eq_true, if_false] at hf ⊢
      obtain ⟨a, b, _⟩ := setMode_file_spec cfg hdry _ hk e.mode
        (doCopyfile cfg e.path (.file m d t) out (some od) fo s).1 (modeRule cfg e.mode m) d t (by rw [pfs]; exact hnode)
      intro k
      by_cases hkk : k = keyOf cfg.cwd out
      · rw [hkk, a, modeRule_idem, hnode]
      · rw [b k hkk, pfs]
  · have := installFileTo_nonfile_fails cfg e out od fo s hok.2 (fun m d t h => hfile ⟨m, d, t, h⟩)
    rw [this] at hf; cases hf

include hdry honly hD hdest in
theorem ruleFixed_data : RuleFixed (installDataOne cfg) okData (selData cfg) (dataKey cfg) (fileNode cfg) where
  skip := by intro s e h; unfold installDataOne; simp only [selData] at h; simp [h]
  failed := by intro s e h; unfold installDataOne; simp [h]
  fixed := by
    intro s e hok hsel hNL hthere hf
    unfold installDataOne at hf ⊢
    unfold dataKey at hthere
    simp only [selData] at hsel
    by_cases hs : s.failed = true
    · simp only [hs, if_true] at hf; cases hf
    · simp only [hs, hsel, Bool.not_true, Bool.false_eq_true, if_false] at hf ⊢
      cases hdp : destPath cfg e.installPath with
      | none => rw [hdp] at hf; simp [St.failed, St.fail] at hf
      | some out =>
        rw [hdp] at hf hthere
        dsimp only at hf hthere ⊢
        exact fileRule_fixed cfg hdry honly hD hdest e hok out _ _ s (hdest _ _ hdp) hNL hthere hf

include hdry honly hD hdest in
theorem ruleFixed_man : RuleFixed (installMan cfg) okData (selData cfg) (dataKey cfg) (fileNode cfg) where
  skip := by intro s e h; unfold installMan; simp only [selData] at h; simp [h]
  failed := by intro s e h; unfold installMan; simp [h]
  fixed := by
    intro s e hok hsel hNL hthere hf
    unfold installMan at hf ⊢
    unfold dataKey at hthere
    simp only [selData] at hsel
    by_cases hs : s.failed = true
    · simp only [hs, if_true] at hf; cases hf
    · simp only [hs, hsel, Bool.not_true, Bool.false_eq_true, if_false] at hf ⊢
      cases hdp : destPath cfg e.installPath with
      | none => rw [hdp] at hf; simp [St.failed, St.fail] at hf
      | some out =>
        rw [hdp] at hf hthere
        dsimp only at hf hthere ⊢
        exact fileRule_fixed cfg hdry honly hD hdest e hok out _ _ s (hdest _ _ hdp) hNL hthere hf

include hdry honly hD hdest in
theorem ruleFixed_header : RuleFixed (installHeader cfg) okData (selData cfg) (headerKey cfg) (fileNode cfg) where
  skip := by intro s e h; unfold installHeader; simp only [selData] at h; simp [h]
  failed := by intro s e h; unfold installHeader; simp [h]
  fixed := by
    intro s e hok hsel hNL hthere hf
    unfold installHeader at hf ⊢
    unfold headerKey at hthere
    simp only [selData] at hsel
    by_cases hs : s.failed = true
    · simp only [hs, if_true] at hf; cases hf
    · simp only [hs, hsel, Bool.not_true, Bool.false_eq_true, if_false] at hf ⊢
      cases hdp : destPath cfg e.installPath with
      | none => rw [hdp] at hf; simp [St.failed, St.fail] at hf
      | some od =>
        rw [hdp] at hf hthere
        dsimp only at hf hthere ⊢
        exact fileRule_fixed cfg hdry honly hD hdest e hok _ od _ s
          ((hdest _ _ hdp).join_name (basename_noSep _) hok.1) hNL hthere hf

include hdry honly hD hdest in
theorem ruleFixed_target : RuleFixed (installTarget cfg) okTarget (selTarget cfg) (targetKey cfg) (targetNode cfg) where
  skip := by intro s e h; unfold installTarget; simp only [selTarget] at h; simp [h]
  failed := by intro s e h; unfold installTarget; simp [h]
  fixed := by
    intro s t hok hsel hNL hthere hf
    obtain ⟨hb, m, d, tt, hsrc⟩ := hok
    unfold installTarget at hf ⊢
    unfold targetKey targetNode at hthere
    simp only [selTarget] at hsel
    by_cases hs : s.failed = true
    · simp only [hs, if_true] at hf; cases hf
    · simp only [hs, hsel, Bool.not_true, Bool.false_eq_true, if_false, hsrc] at hf hthere ⊢
      cases hdp : destPath cfg t.outdir with
      | none => rw [hdp] at hf; simp [St.failed, St.fail] at hf
      | some od =>
        rw [hdp] at hf hthere
        dsimp only at hf hthere ⊢
        have hg : Good D (join od (basename t.fname)) := (hdest _ _ hdp).join_name (basename_noSep _) hb
        have hk := hg.key_ne_nil cfg hD
        obtain ⟨p2, pfs, pfail⟩ := doCopyfile_preserved cfg hdry honly t.fname (join od (basename t.fname)) m d tt _
          (some od) none s hNL hk hthere
        have hsf : s.failed = false := by simpa using hs
        simp only [pfail, hsf, p2, Bool.false_eq_true, if_false]
        intro k; rw [pfs]

theorem foldl_sticky_fixed {α : Type} {f : St → α → St} {ok : α → Prop} {sel : α → Bool} {key : α → Key}
    {node : α → Node} (R : RuleFixed f ok sel key node) (l : List α) (s : St) (h : s.failed = true) :
    l.foldl f s = s := by
  induction l generalizing s with
  | nil => rfl
  | cons a t ih => simp only [List.foldl_cons]; rw [R.failed s a h]; exact ih s h

include hdry honly hD hdest in
/-- `--only-changed` over a tree in which every selected rule's destination already holds its node: nothing
changes -/
theorem filesBody_only_changed_fixed (p : Plan) (hfo : FilesOnly p)
    (hokT : ∀ t ∈ p.targets, okTarget t)
    (hokH : ∀ e ∈ p.headers, okData e) (hokM : ∀ e ∈ p.man, okData e) (hokD : ∀ e ∈ p.data, okData e)
    (s : St) (hNL : NL s.fs)
    (hT : ∀ t ∈ p.targets, selTarget cfg t = true → s.fs.get (targetKey cfg t) = some (targetNode cfg t))
    (hH : ∀ e ∈ p.headers, selData cfg e = true → s.fs.get (headerKey cfg e) = some (fileNode cfg e))
    (hM : ∀ e ∈ p.man, selData cfg e = true → s.fs.get (dataKey cfg e) = some (fileNode cfg e))
    (hDd : ∀ e ∈ p.data, selData cfg e = true → s.fs.get (dataKey cfg e) = some (fileNode cfg e))
    (hf : (installBody cfg p s).failed = false) :
    ∀ k, (installBody cfg p s).fs.get k = s.fs.get k := by
  obtain ⟨h1, h3, h4⟩ := hfo
  have hbody : installBody cfg p s = p.data.foldl (installDataOne cfg) (p.man.foldl (installMan cfg)
      (p.headers.foldl (installHeader cfg) (p.targets.foldl (installTarget cfg) s))) := by
    unfold installBody; simp only [h1, h3, h4, List.foldl_nil]
  rw [hbody] at hf ⊢
  have RT := ruleFixed_target cfg hdry honly hD hdest
  have RH := ruleFixed_header cfg hdry honly hD hdest
  have RM := ruleFixed_man cfg hdry honly hD hdest
  have RD := ruleFixed_data cfg hdry honly hD hdest
  have hf3 : (p.man.foldl (installMan cfg) (p.headers.foldl (installHeader cfg) (p.targets.foldl (installTarget cfg) s))).failed = false := by
    by_cases e : (p.man.foldl (installMan cfg) (p.headers.foldl (installHeader cfg) (p.targets.foldl (installTarget cfg) s))).failed = true
    · rw [foldl_sticky_fixed RD _ _ e] at hf; rw [hf] at e; cases e
    · simpa using e
  have hf2 : (p.headers.foldl (installHeader cfg) (p.targets.foldl (installTarget cfg) s)).failed = false := by
    by_cases e : (p.headers.foldl (installHeader cfg) (p.targets.foldl (installTarget cfg) s)).failed = true
    · rw [foldl_sticky_fixed RM _ _ e] at hf3; rw [hf3] at e; cases e
    · simpa using e
  have hf1 : (p.targets.foldl (installTarget cfg) s).failed = false := by
    by_cases e : (p.targets.foldl (installTarget cfg) s).failed = true
    · rw [foldl_sticky_fixed RH _ _ e] at hf2; rw [hf2] at e; cases e
    · simpa using e
  have nlOf : ∀ (s' : St), (∀ k, s'.fs.get k = s.fs.get k) → NL s'.fs :=
    fun s' h k t e => hNL k t (by rw [← h k]; exact e)
  have e1 := fold_fixed RT p.targets hokT s hNL hT hf1
  have e2 := fold_fixed RH p.headers hokH _ (nlOf _ e1) (fun e he hs => by rw [e1]; exact hH e he hs) hf2
  have e12 : ∀ k, (p.headers.foldl (installHeader cfg) (p.targets.foldl (installTarget cfg) s)).fs.get k = s.fs.get k :=
    fun k => by rw [e2, e1]
  have e3 := fold_fixed RM p.man hokM _ (nlOf _ e12) (fun e he hs => by rw [e12]; exact hM e he hs) hf3
  have e123 : ∀ k, (p.man.foldl (installMan cfg) (p.headers.foldl (installHeader cfg)
      (p.targets.foldl (installTarget cfg) s))).fs.get k = s.fs.get k := fun k => by rw [e3, e12]
  have e4 := fold_fixed RD p.data hokD _ (nlOf _ e123) (fun e he hs => by rw [e123]; exact hDd e he hs) hf
  intro k
  rw [e4, e123]

end

end MesonModel.Install
