/-
Helper lemmas for C11: `install_emptydir` as a rule whose result depends on what was at the destination, and the
plan without subdirectories and symlinks as ONE list of rules (targets, headers, man pages, empty directories, data —
the order of `Installer.do_install`), so that exactness of the whole installation is one application of
`fold_rules_exact_S`.
-/
import MesonModel.Install.StateRules

namespace MesonModel.Install

/-- a successful `DirMaker.makedirs(path)` leaves a directory at `path` -/
theorem dmMakedirs_isdir (cfg : Cfg) (hdry : cfg.dryRun = false) (path : Str) (b : Bool) (s : St) (hNL : NL s.fs)
    (hk : keyOf cfg.cwd path ≠ []) (hf : (dmMakedirs cfg path b s).failed = false) :
    ∃ m, (dmMakedirs cfg path b s).fs.get (keyOf cfg.cwd path) = some (.dir m) := by
  unfold dmMakedirs at hf ⊢
  dsimp only at hf ⊢
  have hf1 : (mkdirs cfg path b s).failed = false := by
    split at hf
    · rename_i h1; rw [h1] at hf; cases hf
    · rename_i h1; simpa using h1
  simp only [hf1, Bool.false_eq_true, if_false]
  unfold mkdirs at hf1 ⊢
  simp only [hdry, Bool.false_eq_true, if_false, hk] at hf1 ⊢
  obtain ⟨_, _, _, _, m5⟩ := mkdirsGo_spec _ b (keyOf cfg.cwd path) [] s hNL hf1
  have := m5 (keyOf cfg.cwd path) (List.prefix_refl _) hk
  simpa using this

/-- `set_mode` on a directory applies the documented permission rule and touches nothing else -/
theorem setMode_dir_spec (cfg : Cfg) (hdry : cfg.dryRun = false) (k : Key) (hk : k ≠ []) (mode : Option FileMode)
    (s : St) (m : Nat) (hg : s.fs.get k = some (.dir m)) :
    (setMode cfg k mode s).fs.get k = some (.dir (modeRule cfg mode m)) ∧
    (∀ k', k' ≠ k → (setMode cfg k mode s).fs.get k' = s.fs.get k') ∧
    (setMode cfg k mode s).failed = s.failed := by
  have hl : s.fs.look k = some (.dir m) := by rw [look_of_ne_nil _ _ hk]; exact hg
  have hlex : lexists s k = true := by simp [lexists, hl]
  have hsan : (sanitize cfg k s).fs.get k = some (.dir (match cfg.umask with | some u => sanitizedMode m u | none => m)) ∧
      (∀ k', k' ≠ k → (sanitize cfg k s).fs.get k' = s.fs.get k') ∧ (sanitize cfg k s).failed = s.failed := by
    unfold sanitize
    cases hu : cfg.umask with
    | none => exact ⟨hg, fun _ _ => rfl, rfl⟩
    | some u =>
      simp only [hl]
      exact ⟨by simp [St.write, get_set_same], fun k' hk' => by simp [St.write, get_set_other _ _ _ _ hk'], rfl⟩
  have hch : ∀ p, (chmodNode k p s).fs.get k = some (.dir p) ∧
      (∀ k', k' ≠ k → (chmodNode k p s).fs.get k' = s.fs.get k') ∧ (chmodNode k p s).failed = s.failed := by
    intro p
    unfold chmodNode
    simp only [hl]
    exact ⟨by simp [St.write, get_set_same], fun k' hk' => by simp [St.write, get_set_other _ _ _ _ hk'], rfl⟩
  unfold setMode modeRule
  simp only [hdry, Bool.false_eq_true, if_false]
  cases mode with
  | none => exact hsan
  | some fm =>
    obtain ⟨perms, chown⟩ := fm
    cases perms with
    | none =>
      cases chown <;> simp only [Option.isNone_none, Bool.not_false, Bool.not_true, Bool.and_true, Bool.and_false,
        hlex, Bool.true_and, Bool.false_and, Bool.false_eq_true, if_true, if_false] <;> exact hsan
    | some p =>
      cases chown <;> simp only [Option.isNone_some, Bool.false_and, hlex, Bool.not_true, Bool.and_false,
        Bool.false_eq_true, if_false] <;> exact hch p

/-! ### `install_emptydir` -/

/-- destination key of an empty-directory rule -/
def emptyKey (cfg : Cfg) (e : EmptyDirEntry) : Key :=
  match destPath cfg e.path with
  | some out => keyOf cfg.cwd out
  | none => []

def selEmpty (cfg : Cfg) (e : EmptyDirEntry) : Bool := shouldInstall cfg e.subproject e.tag

/-- what `install_emptydir` leaves: a directory; the permission rule (declared `install_mode`, else `install_umask`
on the default permissions, else unchanged) is applied to the permissions an existing directory had, or to
`0o777 & ~umask` for a directory the installer creates -/
def emptyNode (cfg : Cfg) (e : EmptyDirEntry) (prev : Option Node) : Node :=
  match prev with
  | some (.dir m) => .dir (modeRule cfg e.mode m)
  | _ => .dir (modeRule cfg e.mode (andNot 0o777 cfg.procUmask))

section
variable {D : Key} (cfg : Cfg) (hdry : cfg.dryRun = false) (hD : D ≠ []) (hdest : Dest cfg D)

include hdry hD hdest in
theorem ruleSpecS_emptydir : RuleSpecS NL (andNot 0o777 cfg.procUmask) (installEmptydir cfg) (fun _ => True)
    (selEmpty cfg) (emptyKey cfg) (emptyNode cfg) where
  skip := by intro s e h; unfold installEmptydir; simp only [selEmpty] at h; simp [h]
  failed := by intro s e h; unfold installEmptydir; simp [h]
  absent := fun _ => rfl
  spec := by
    intro s e _ hsel hNL hf
    unfold installEmptydir at hf ⊢
    unfold emptyKey
    simp only [selEmpty] at hsel
    by_cases hs : s.failed = true
    · simp only [hs, if_true] at hf; cases hf
    · simp only [hs, hsel, Bool.not_true, Bool.false_eq_true, if_false] at hf ⊢
      cases hdp : destPath cfg e.path with
      | none => rw [hdp] at hf; simp [St.failed, St.fail] at hf
      | some full =>
        rw [hdp] at hf
        dsimp only at hf ⊢
        have hg : Good D full := hdest _ _ hdp
        have hk := hg.key_ne_nil cfg hD
        have hNL0 : NL ({ s with didInstall := true } : St).fs := hNL
        by_cases hisf : isFileF { s with didInstall := true } (keyOf cfg.cwd full) = true
        · simp [hisf, St.failed, St.fail] at hf
        · simp only [hisf, Bool.false_eq_true, if_false] at hf ⊢
          by_cases hm : (dmMakedirs cfg full true { s with didInstall := true }).failed = true
          · simp [hm] at hf
          · have hm' : (dmMakedirs cfg full true { s with didInstall := true }).failed = false := by simpa using hm
            simp only [hm', Bool.false_eq_true, if_false] at hf ⊢
            obtain ⟨hNL1, hspec⟩ := dmMakedirs_fs_spec cfg hdry full true _ hNL0 hm'
            obtain ⟨m1, hdir⟩ := dmMakedirs_isdir cfg hdry full true _ hNL0 hk hm'
            obtain ⟨a, b, _⟩ := setMode_dir_spec cfg hdry _ hk e.mode _ m1 hdir
            have hprev : emptyNode cfg e (s.fs.get (keyOf cfg.cwd full)) = .dir (modeRule cfg e.mode m1) := by
              rcases hspec (keyOf cfg.cwd full) with h | ⟨h0, h1⟩
              · rw [hdir] at h
                have : s.fs.get (keyOf cfg.cwd full) = some (.dir m1) := h.symm
                rw [this]; rfl
              · rw [hdir] at h1
                have h0' : s.fs.get (keyOf cfg.cwd full) = none := h0
                rw [h0']
                cases h1; rfl
            refine ⟨?_, by rw [a, hprev], fun k hkk => ?_⟩
            · intro k t' e'
              by_cases hkk : k = keyOf cfg.cwd full
              · rw [hkk, a] at e'; cases e'
              · rw [b k hkk] at e'; exact hNL1 k t' e'
            · rw [b k hkk]
              rcases hspec k with h | ⟨h0, h1⟩
              · exact Or.inl h
              · exact Or.inr ⟨h0, h1⟩

end

/-! ### the plan as one list of rules -/

inductive Rule
  | T (t : TargetEntry)
  | H (e : DataEntry)
  | M (e : DataEntry)
  | E (e : EmptyDirEntry)
  | D (e : DataEntry)

def stepRule (cfg : Cfg) (s : St) : Rule → St
  | .T t => installTarget cfg s t
  | .H e => installHeader cfg s e
  | .M e => installMan cfg s e
  | .E e => installEmptydir cfg s e
  | .D e => installDataOne cfg s e

/-- the rules in the order `Installer.do_install` runs them (plans without subdirectories and symlinks) -/
def rulesOf (p : Plan) : List Rule :=
  p.targets.map .T ++ (p.headers.map .H ++ (p.man.map .M ++ (p.emptydirs.map .E ++ p.data.map .D)))

def ruleSel (cfg : Cfg) : Rule → Bool
  | .T t => selTarget cfg t
  | .H e => selData cfg e
  | .M e => selData cfg e
  | .E e => selEmpty cfg e
  | .D e => selData cfg e

def ruleKey (cfg : Cfg) : Rule → Key
  | .T t => targetKey cfg t
  | .H e => headerKey cfg e
  | .M e => dataKey cfg e
  | .E e => emptyKey cfg e
  | .D e => dataKey cfg e

def ruleNode (cfg : Cfg) : Rule → Option Node → Node
  | .T t => ocTargetNode cfg t.mode t.src
  | .H e => ocNode cfg e.mode e.src
  | .M e => ocNode cfg e.mode e.src
  | .E e => emptyNode cfg e
  | .D e => ocNode cfg e.mode e.src

def ruleOk : Rule → Prop
  | .T t => okTarget t
  | .H e => okData e
  | .M e => okData e
  | .E _ => True
  | .D e => okData e

theorem installBody_eq_rules (cfg : Cfg) (p : Plan) (s : St) (h1 : p.subdirs = []) (h2 : p.symlinks = []) :
    installBody cfg p s = (rulesOf p).foldl (stepRule cfg) s := by
  unfold installBody rulesOf
  simp only [h1, h2, List.foldl_nil, List.foldl_append, List.foldl_map]
  rfl

section
variable {D : Key} (cfg : Cfg) (hdry : cfg.dryRun = false) (hD : D ≠ []) (hdest : Dest cfg D)

include hdry hD hdest in
theorem ruleSpecS_all : RuleSpecS NL (andNot 0o777 cfg.procUmask) (stepRule cfg) ruleOk (ruleSel cfg) (ruleKey cfg)
    (ruleNode cfg) where
  skip := by
    intro s r h
    cases r with
    | T t => exact (ruleSpecS_target cfg hdry hD hdest).skip s t h
    | H e => exact (ruleSpecS_header cfg hdry hD hdest).skip s e h
    | M e => exact (ruleSpecS_man cfg hdry hD hdest).skip s e h
    | E e => exact (ruleSpecS_emptydir cfg hdry hD hdest).skip s e h
    | D e => exact (ruleSpecS_data cfg hdry hD hdest).skip s e h
  failed := by
    intro s r h
    cases r with
    | T t => exact (ruleSpecS_target cfg hdry hD hdest).failed s t h
    | H e => exact (ruleSpecS_header cfg hdry hD hdest).failed s e h
    | M e => exact (ruleSpecS_man cfg hdry hD hdest).failed s e h
    | E e => exact (ruleSpecS_emptydir cfg hdry hD hdest).failed s e h
    | D e => exact (ruleSpecS_data cfg hdry hD hdest).failed s e h
  absent := by
    intro r
    cases r with
    | T t => exact (ruleSpecS_target cfg hdry hD hdest).absent t
    | H e => exact (ruleSpecS_header cfg hdry hD hdest).absent e
    | M e => exact (ruleSpecS_man cfg hdry hD hdest).absent e
    | E e => exact (ruleSpecS_emptydir cfg hdry hD hdest).absent e
    | D e => exact (ruleSpecS_data cfg hdry hD hdest).absent e
  spec := by
    intro s r hok hsel hNL hf
    cases r with
    | T t => exact (ruleSpecS_target cfg hdry hD hdest).spec s t hok hsel hNL hf
    | H e => exact (ruleSpecS_header cfg hdry hD hdest).spec s e hok hsel hNL hf
    | M e => exact (ruleSpecS_man cfg hdry hD hdest).spec s e hok hsel hNL hf
    | E e => exact (ruleSpecS_emptydir cfg hdry hD hdest).spec s e hok hsel hNL hf
    | D e => exact (ruleSpecS_data cfg hdry hD hdest).spec s e hok hsel hNL hf

/-- destination keys of the selected rules, in installation order -/
def ruleKeys (cfg : Cfg) (p : Plan) : List Key := ((rulesOf p).filter (ruleSel cfg)).map (ruleKey cfg)

include hdry hD hdest in
/-- **exactness of a whole plan of file rules and empty directories**, pairwise different destinations, with or
without `--only-changed`, on any link-free tree -/
theorem rulesBody_exact (p : Plan) (h1 : p.subdirs = []) (h2 : p.symlinks = [])
    (hok : ∀ r ∈ rulesOf p, ruleOk r) (hnd : (ruleKeys cfg p).Nodup)
    (s : St) (hNL : NL s.fs) (hf : (installBody cfg p s).failed = false) :
    NL (installBody cfg p s).fs ∧
    (∀ r ∈ rulesOf p, ruleSel cfg r = true →
      (installBody cfg p s).fs.get (ruleKey cfg r) = some (ruleNode cfg r (s.fs.get (ruleKey cfg r)))) ∧
    (∀ k, k ∉ ruleKeys cfg p → (installBody cfg p s).fs.get k = s.fs.get k ∨
      (s.fs.get k = none ∧ (installBody cfg p s).fs.get k = some (.dir (andNot 0o777 cfg.procUmask)))) := by
  rw [installBody_eq_rules cfg p s h1 h2] at hf ⊢
  obtain ⟨n, g, fr⟩ := fold_rules_exact_S (ruleSpecS_all cfg hdry hD hdest) (rulesOf p) hok
    (pairwise_of_nodup _ _ _ hnd) s hNL hf
  refine ⟨n, g, fun k hk => fr k ?_⟩
  intro r hr hs e
  exact hk (e ▸ List.mem_map.mpr ⟨r, List.mem_filter.mpr ⟨hr, hs⟩, rfl⟩)

end

end MesonModel.Install
