/-
Helper lemmas for C11: in dry-run mode no installer function changes the file system.
-/
import MesonModel.Install.Model

namespace MesonModel.Install

@[simp] theorem St.fail_fs (s : St) (e : Err) : (s.fail e).fs = s.fs := rfl
@[simp] theorem St.logLine_fs (s : St) (l : Str) : (s.logLine l).fs = s.fs := rfl

section
variable (cfg : Cfg) (h : cfg.dryRun = true)
include h

theorem mkdirs_dry (p : Str) (b : Bool) (s : St) : (mkdirs cfg p b s).fs = s.fs := by
  simp [mkdirs, h]

theorem dmMakedirs_dry (p : Str) (b : Bool) (s : St) : (dmMakedirs cfg p b s).fs = s.fs := by
  unfold dmMakedirs
  simp only [mkdirs, h, if_true]
  split <;> rfl

theorem setMode_dry (k : Key) (m : Option FileMode) (s : St) : (setMode cfg k m s).fs = s.fs := by
  simp [setMode, h]

theorem remove_dry (k : Key) (s : St) : (remove cfg k s).fs = s.fs := by
  simp [remove, h]

theorem putFile_dry (k : Key) (m d t : Nat) (s : St) : (putFile cfg k m d t s).fs = s.fs := by
  simp [putFile, h]

theorem putLink_dry (k : Key) (t : Str) (s : St) : (putLink cfg k t s).fs = s.fs := by
  simp [putLink, h]

theorem copyPrepare_dry (src : Src) (to : Str) (mk : Option Str) (s : St) :
    (copyPrepare cfg src to mk s).1.fs = s.fs := by
  unfold copyPrepare
  try dsimp only
  (repeat' split) <;> simp [remove_dry cfg h, dmMakedirs_dry cfg h]

theorem copyPayload_dry (fp : Str) (src : Src) (to od : Str) (fo : Option Bool) (s : St) :
    (copyPayload cfg fp src to od fo s).fs = s.fs := by
  unfold copyPayload
  try dsimp only
  (repeat' split) <;> simp [putLink_dry cfg h, putFile_dry cfg h]

theorem doCopyfile_dry (fp : Str) (src : Src) (to : Str) (mk : Option Str) (fo : Option Bool) (s : St) :
    (doCopyfile cfg fp src to mk fo s).1.fs = s.fs := by
  unfold doCopyfile
  try dsimp only
  (repeat' split) <;> simp [copyPayload_dry cfg h, copyPrepare_dry cfg h]

theorem doSymlink_dry (t l : Str) (s : St) : (doSymlink cfg t l s).1.fs = s.fs := by
  unfold doSymlink
  try dsimp only
  (repeat' split) <;> simp_all [remove_dry cfg h]

theorem copydirDirStep_dry (dst : Str) (ex : List Str) (rel : List Str) (a : CdAcc) (e : Str × DirEnt) :
    (copydirDirStep cfg dst ex rel a e).s.fs = a.s.fs := by
  unfold copydirDirStep
  try dsimp only
  (repeat' split) <;> simp_all [dmMakedirs_dry cfg h]

theorem copydirFileStep_dry (sr dst : Str) (ex : List Str) (rel : List Str) (rm : Nat) (m : Option FileMode)
    (fo : Option Bool) (s : St) (e : Str × Src) :
    (copydirFileStep cfg sr dst ex rel rm m fo s e).fs = s.fs := by
  unfold copydirFileStep
  try dsimp only
  (repeat' split) <;> simp_all [dmMakedirs_dry cfg h, setMode_dry cfg h, doCopyfile_dry cfg h]

end

theorem foldl_fs_inv {α σ : Type} (proj : σ → FS) (f : σ → α → σ) (hf : ∀ s a, proj (f s a) = proj s)
    (l : List α) (s : σ) : proj (l.foldl f s) = proj s := by
  induction l generalizing s with
  | nil => rfl
  | cons a t ih => simp only [List.foldl_cons]; rw [ih, hf]

section
variable (cfg : Cfg) (h : cfg.dryRun = true)
include h

theorem copydirRec_dry (sd dd : Str) (ef ed : List Str) (m : Option FileMode) (fo : Option Bool)
    (st : St × List (List Str)) (r : WalkRec) :
    (copydirRec cfg sd dd ef ed m fo st r).1.fs = st.1.fs := by
  unfold copydirRec
  try dsimp only
  split
  · rfl
  · split
    · rfl
    · rw [foldl_fs_inv (fun s : St => s.fs) _ (fun s e => copydirFileStep_dry cfg h _ _ _ _ _ _ _ s e)]
      exact foldl_fs_inv (fun a : CdAcc => a.s.fs) _ (fun a e => copydirDirStep_dry cfg h _ _ _ a e) _ _

theorem doCopydir_dry (sd dd : Str) (ex : Option (List Str × List Str)) (m : Option FileMode) (fo : Option Bool)
    (w : List WalkRec) (s : St) : (doCopydir cfg sd dd ex m fo w s).fs = s.fs := by
  unfold doCopydir
  try dsimp only
  (repeat' split) <;> try rfl
  all_goals
    exact foldl_fs_inv (fun st : St × List (List Str) => st.1.fs) _
      (fun st r => copydirRec_dry cfg h _ _ _ _ _ _ st r) _ _

theorem installSubdir_dry (s : St) (e : SubdirEntry) : (installSubdir cfg s e).fs = s.fs := by
  unfold installSubdir
  try dsimp only
  (repeat' split) <;> simp [doCopydir_dry cfg h, dmMakedirs_dry cfg h]

theorem installTarget_dry (s : St) (e : TargetEntry) : (installTarget cfg s e).fs = s.fs := by
  unfold installTarget
  try dsimp only
  (repeat' split) <;> simp [doCopydir_dry cfg h, dmMakedirs_dry cfg h, doCopyfile_dry cfg h, setMode_dry cfg h]

theorem installFileTo_dry (e : DataEntry) (o od : Str) (fo : Option Bool) (s : St) :
    (installFileTo cfg e o od fo s).fs = s.fs := by
  unfold installFileTo
  try dsimp only
  (repeat' split) <;> simp [doCopyfile_dry cfg h, setMode_dry cfg h]

theorem installHeader_dry (s : St) (e : DataEntry) : (installHeader cfg s e).fs = s.fs := by
  unfold installHeader
  try dsimp only
  (repeat' split) <;> simp [installFileTo_dry cfg h]

theorem installMan_dry (s : St) (e : DataEntry) : (installMan cfg s e).fs = s.fs := by
  unfold installMan
  try dsimp only
  (repeat' split) <;> simp [installFileTo_dry cfg h]

theorem installDataOne_dry (s : St) (e : DataEntry) : (installDataOne cfg s e).fs = s.fs := by
  unfold installDataOne
  try dsimp only
  (repeat' split) <;> simp [installFileTo_dry cfg h]

theorem installEmptydir_dry (s : St) (e : EmptyDirEntry) : (installEmptydir cfg s e).fs = s.fs := by
  unfold installEmptydir
  try dsimp only
  (repeat' split) <;> simp [dmMakedirs_dry cfg h, setMode_dry cfg h]

theorem installSymlink_dry (s : St) (e : SymlinkEntry) : (installSymlink cfg s e).fs = s.fs := by
  unfold installSymlink
  try dsimp only
  (repeat' split) <;> simp [dmMakedirs_dry cfg h, doSymlink_dry cfg h]

theorem installBody_dry (p : Plan) (s : St) : (installBody cfg p s).fs = s.fs := by
  unfold installBody
  try dsimp only
  rw [foldl_fs_inv (fun s : St => s.fs) _ (installSymlink_dry cfg h),
      foldl_fs_inv (fun s : St => s.fs) _ (installDataOne_dry cfg h),
      foldl_fs_inv (fun s : St => s.fs) _ (installEmptydir_dry cfg h),
      foldl_fs_inv (fun s : St => s.fs) _ (installMan_dry cfg h),
      foldl_fs_inv (fun s : St => s.fs) _ (installHeader_dry cfg h),
      foldl_fs_inv (fun s : St => s.fs) _ (installTarget_dry cfg h),
      foldl_fs_inv (fun s : St => s.fs) _ (installSubdir_dry cfg h)]

end

end MesonModel.Install
