/-
Helper lemmas for C11: the `dirname` chain of a normalised absolute path (what `DirMaker.makedirs` walks).
-/
import MesonModel.Install.LogLemmas

namespace MesonModel.Install

/-- components as they occur in keys -/
def CleanKey (K : Key) : Prop := ∀ c ∈ K, c ≠ [] ∧ '/' ∉ c ∧ c ≠ ['.'] ∧ c ≠ dotdot

theorem CleanKey.prefix {K q : Key} (h : CleanKey K) (hq : q <+: K) : CleanKey q :=
  fun c hc => h c (hq.subset hc)

theorem foldl_keyStep_nodotdot (cs : List Str) (acc : Key) (hacc : dotdot ∉ acc) : dotdot ∉ cs.foldl keyStep acc :=
  (foldl_normStep_abs 1 (by decide) cs acc hacc).2

theorem keyOfAbs_cleanKey (p : Str) : CleanKey (keyOfAbs p) := by
  intro c hc
  refine ⟨(keyOfAbs_clean p c hc).1, (keyOfAbs_clean p c hc).2, ?_, ?_⟩
  · exact foldl_keyStep_nodot (splitOn '/' p) [] (by simp) c hc
  · intro e
    exact foldl_keyStep_nodotdot (splitOn '/' p) [] (by simp) (e ▸ hc)

def IsRoot (R : Str) : Prop := R = ['/'] ∨ R = ['/', '/']

theorem pureFormat_root {R : Str} (hR : IsRoot R) (K : Key) : pureFormat R K = R ++ joinWith '/' K := by
  unfold pureFormat
  rcases hR with rfl | rfl <;> simp

theorem isAbs_pureFormat {R : Str} (hR : IsRoot R) (K : Key) : isAbs (pureFormat R K) = true := by
  rw [pureFormat_root hR]
  rcases hR with rfl | rfl <;> rfl

theorem keyOfAbs_pureFormat {R : Str} (hR : IsRoot R) (K : Key) (hK : CleanKey K) :
    keyOfAbs (pureFormat R K) = K := by
  obtain ⟨pre, hpre, hs⟩ := splitOn_pureFormat R K (by rcases hR with rfl | rfl <;> simp)
    (fun c hc => ⟨(hK c hc).1, (hK c hc).2.1⟩)
  unfold keyOfAbs
  rw [hs, foldl_keyStep_noDD]
  · rw [List.filter_append]
    have h1 : pre.filter isComp = [] := by
      rw [List.filter_eq_nil_iff]
      intro x hx
      rcases hpre x hx with rfl | rfl <;> decide
    have h2 : K.filter isComp = K := by
      rw [List.filter_eq_self]
      intro c hc
      simp [isComp, (hK c hc).1, (hK c hc).2.2.1]
    simp [h1, h2]
  · intro hm
    rcases List.mem_append.mp hm with h | h
    · rcases hpre _ h with e | e <;> exact absurd e (by decide)
    · exact (hK _ h).2.2.2 rfl

theorem joinWith_append_single (c : Char) (l : List Str) (x : Str) (hl : l ≠ []) :
    joinWith c (l ++ [x]) = joinWith c l ++ c :: x := by
  induction l with
  | nil => exact absurd rfl hl
  | cons a t ih =>
    cases t with
    | nil => simp [joinWith]
    | cons b t' =>
      have := ih (by simp)
      simp only [List.cons_append, joinWith] at this ⊢
      rw [this]; simp

theorem dropWhile_append_stop {α} (q : α → Bool) (l : List α) (x : α) (r : List α)
    (hl : ∀ y ∈ l, q y = true) (hx : q x = false) : (l ++ x :: r).dropWhile q = x :: r := by
  induction l with
  | nil => simp [List.dropWhile, hx]
  | cons y t ih =>
    simp only [List.cons_append]
    rw [List.dropWhile_cons_of_pos (hl y (by simp))]
    exact ih (fun z hz => hl z (by simp [hz]))

theorem headRaw_append_sep (x c : Str) (h : '/' ∉ c) : headRaw (x ++ '/' :: c) = x ++ ['/'] := by
  unfold headRaw
  have : (x ++ '/' :: c).reverse = c.reverse ++ '/' :: x.reverse := by simp
  rw [this, dropWhile_append_stop _ _ _ _ (by
    intro y hy
    have : y ≠ '/' := fun e => h (e ▸ List.mem_reverse.mp hy)
    simpa using this) (by simp)]
  simp

theorem rstripSlash_append_slash (y : Str) : rstripSlash (y ++ ['/']) = rstripSlash y := by
  unfold rstripSlash
  simp

theorem rstripSlash_of_last (z : Str) (a : Char) (ha : a ≠ '/') : rstripSlash (z ++ [a]) = z ++ [a] := by
  unfold rstripSlash
  simp [ha]

theorem joinWith_last (K : Key) (hne : K ≠ []) (hK : CleanKey K) :
    ∃ z a, joinWith '/' K = z ++ [a] ∧ a ≠ '/' := by
  rcases List.eq_nil_or_concat K with rfl | ⟨K', c, rfl⟩
  · exact absurd rfl hne
  · have hc := hK c (by simp)
    rcases List.eq_nil_or_concat c with e | ⟨c0, a, rfl⟩
    · exact absurd e hc.1
    · have ha : a ≠ '/' := fun e => hc.2.1 (by simp [e])
      by_cases hK' : K' = []
      · subst hK'
        exact ⟨c0, a, by simp [joinWith], ha⟩
      · refine ⟨joinWith '/' K' ++ '/' :: c0, a, ?_, ha⟩
        rw [show K'.concat (c0.concat a) = K' ++ [c0 ++ [a]] by simp, joinWith_append_single _ _ _ hK']
        simp

/-- one step up the chain -/
theorem dirname_pureFormat {R : Str} (hR : IsRoot R) (K' : Key) (c : Str) (hK : CleanKey (K' ++ [c])) :
    dirname (pureFormat R (K' ++ [c])) = pureFormat R K' := by
  have hc := hK c (by simp)
  rw [pureFormat_root hR, pureFormat_root hR]
  by_cases hK' : K' = []
  · subst hK'
    simp only [List.nil_append, joinWith, List.append_nil]
    have hh : headRaw (R ++ c) = R := by
      rcases hR with rfl | rfl
      · exact headRaw_append_sep [] c hc.2.1
      · exact headRaw_append_sep ['/'] c hc.2.1
    unfold dirname
    simp only [hh]
    rcases hR with rfl | rfl <;> simp
  · rw [joinWith_append_single _ _ _ hK', ← List.append_assoc]
    have hh := headRaw_append_sep (R ++ joinWith '/' K') c hc.2.1
    obtain ⟨z, a, hz, ha⟩ := joinWith_last K' hK' (hK.prefix (List.prefix_append _ _))
    unfold dirname
    simp only [hh]
    have hany : (R ++ joinWith '/' K' ++ ['/']).any (· ≠ '/') = true := by
      rw [hz]; simp [ha]
    have hne : R ++ joinWith '/' K' ++ ['/'] ≠ [] := by simp
    simp only [hne, hany, ne_eq, not_false_eq_true, decide_true, Bool.and_self, if_true]
    rw [rstripSlash_append_slash, hz, ← List.append_assoc, rstripSlash_of_last _ _ ha]

theorem dirname_root {R : Str} (hR : IsRoot R) : dirname R = R := by
  rcases hR with rfl | rfl <;> decide

theorem length_le_joinWith (K : Key) (hK : ∀ c ∈ K, c ≠ []) : K.length ≤ (joinWith '/' K).length := by
  induction K with
  | nil => simp
  | cons a t ih =>
    have ha : 1 ≤ a.length := by
      have := hK a (by simp)
      cases a with
      | nil => exact absurd rfl this
      | cons _ _ => simp
    cases t with
    | nil => simpa [joinWith] using ha
    | cons b t' =>
      have := ih (fun c hc => hK c (by simp [hc]))
      simp only [joinWith, List.length_append, List.length_cons] at this ⊢
      omega

theorem prefix_concat_cases {q K' : Key} {c : Str} (h : q <+: K' ++ [c]) : q = K' ++ [c] ∨ q <+: K' := by
  by_cases hl : q.length ≤ K'.length
  · exact Or.inr (List.prefix_of_prefix_length_le h (List.prefix_append _ _) hl)
  · left
    apply h.eq_of_length
    have := h.length_le
    simp at this ⊢
    omega

/-- what the `while dirname != os.path.dirname(dirname)` loop of `DirMaker.makedirs` collects, for a
normalised absolute path with key `K` -/
theorem dmCollect_spec (cfg : Cfg) (s : St) {R : Str} (hR : IsRoot R) :
    ∀ (n : Nat) (K : Key), K.length = n → CleanKey K → ∀ fuel, n < fuel → ∀ acc,
    ∃ L, dmCollect cfg s fuel (pureFormat R K) acc = acc ++ L ∧
      (∀ x ∈ L, ∃ q, q <+: K ∧ q ≠ [] ∧ x = pureFormat R q ∧ existsF s (keyOf cfg.cwd x) = false) ∧
      (∀ q, q <+: K → q ≠ [] → existsF s (keyOf cfg.cwd (pureFormat R q)) = false →
          pureFormat R q ∈ L ∨ ∃ q', q <+: q' ∧ q' <+: K ∧ s.dirs.contains (pureFormat R q') = true) ∧
      L.Pairwise (fun x y => (keyOfAbs y).length < (keyOfAbs x).length) ∧
      (∀ x ∈ L, (keyOfAbs x).length ≤ n) := by
  intro n
  induction n with
  | zero =>
    intro K hK _ fuel hf acc
    have : K = [] := List.eq_nil_of_length_eq_zero hK
    subst this
    cases fuel with
    | zero => omega
    | succ f =>
      refine ⟨[], ?_, by simp, ?_, by simp, by simp⟩
      · unfold dmCollect
        have : pureFormat R [] = R := by rw [pureFormat_root hR]; simp [joinWith]
        rw [this, dirname_root hR]; simp
      · intro q hq hne
        exact absurd (List.prefix_nil.mp hq) hne
  | succ n ih =>
    intro K hK hclean fuel hf acc
    rcases List.eq_nil_or_concat K with rfl | ⟨K', c, rfl⟩
    · simp at hK
    · have hK'len : K'.length = n := by simpa using hK
      have hcK : CleanKey (K' ++ [c]) := by simpa using hclean
      have hcK' : CleanKey K' := hcK.prefix (List.prefix_append _ _)
      have hdir := dirname_pureFormat hR K' c hcK
      have hkey := keyOfAbs_pureFormat hR (K' ++ [c]) hcK
      have hkey' := keyOfAbs_pureFormat hR K' hcK'
      have hne : pureFormat R (K' ++ [c]) ≠ pureFormat R K' := by
        intro e
        have := congrArg keyOfAbs e
        rw [hkey, hkey'] at this
        have := congrArg List.length this
        simp at this
      cases fuel with
      | zero => omega
      | succ f =>
        have hfn : n < f := by omega
        simp only [List.concat_eq_append]
        unfold dmCollect
        rw [hdir]
        simp only [hne, if_false]
        by_cases hcont : s.dirs.contains (pureFormat R (K' ++ [c])) = true
        · simp only [hcont, if_true]
          refine ⟨[], by simp, by simp, ?_, by simp, by simp⟩
          intro q hq _ _
          exact Or.inr ⟨K' ++ [c], hq, List.prefix_refl _, hcont⟩
        · simp only [hcont, Bool.false_eq_true, if_false]
          by_cases hex : existsF s (keyOf cfg.cwd (pureFormat R (K' ++ [c]))) = true
          · simp only [hex, if_true]
            obtain ⟨L, h1, h2, h3, h4, h5⟩ := ih K' hK'len hcK' f hfn acc
            refine ⟨L, h1, ?_, ?_, h4, fun x hx => Nat.le_succ_of_le (h5 x hx)⟩
            · intro x hx
              obtain ⟨q, hq1, hq2, hq3, hq4⟩ := h2 x hx
              exact ⟨q, List.IsPrefix.trans hq1 (List.prefix_append _ _), hq2, hq3, hq4⟩
            · intro q hq hqne hqex
              rcases prefix_concat_cases hq with e | hq'
              · subst e; rw [hex] at hqex; cases hqex
              · rcases h3 q hq' hqne hqex with h | ⟨q', a, b, c'⟩
                · exact Or.inl h
                · exact Or.inr ⟨q', a, List.IsPrefix.trans b (List.prefix_append _ _), c'⟩
          · have hex' : existsF s (keyOf cfg.cwd (pureFormat R (K' ++ [c]))) = false := by simpa using hex
            simp only [hex', Bool.false_eq_true, if_false]
            obtain ⟨L, h1, h2, h3, h4, h5⟩ := ih K' hK'len hcK' f hfn (acc ++ [pureFormat R (K' ++ [c])])
            refine ⟨pureFormat R (K' ++ [c]) :: L, by rw [h1]; simp, ?_, ?_, ?_, ?_⟩
            · intro x hx
              rcases List.mem_cons.mp hx with e | hx
              · subst e
                exact ⟨K' ++ [c], List.prefix_refl _, by simp, rfl, hex'⟩
              · obtain ⟨q, hq1, hq2, hq3, hq4⟩ := h2 x hx
                exact ⟨q, List.IsPrefix.trans hq1 (List.prefix_append _ _), hq2, hq3, hq4⟩
            · intro q hq hqne hqex
              rcases prefix_concat_cases hq with e | hq'
              · subst e; exact Or.inl (by simp)
              · rcases h3 q hq' hqne hqex with h | ⟨q', a, b, c'⟩
                · exact Or.inl (by simp [h])
                · exact Or.inr ⟨q', a, List.IsPrefix.trans b (List.prefix_append _ _), c'⟩
            · rw [List.pairwise_cons]
              refine ⟨?_, h4⟩
              intro y hy
              rw [hkey]
              have := h5 y hy
              simp; omega
            · intro x hx
              rcases List.mem_cons.mp hx with e | hx
              · subst e; rw [hkey]; simp [hK'len]
              · exact Nat.le_succ_of_le (h5 x hx)

end MesonModel.Install
