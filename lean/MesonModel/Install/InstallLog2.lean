/-
Helper lemmas for C11: every installer function keeps confinement (`Inv`) together with the log bookkeeping
invariant (`LGc`), on link-free plans and real runs.
-/
import MesonModel.Install.InstallLog

namespace MesonModel.Install

/-- both invariants -/
def B (D : Key) (cwd : Str) (fs0 : FS) (s : St) : Prop := Inv D fs0 s ∧ LGc cwd fs0 s

section
variable {D : Key} {fs0 : FS} (cfg : Cfg) (hdry : cfg.dryRun = false) (hD : D ≠ [])
  (hfresh : ∀ k, D <+: k → fs0.get k = none)

theorem Good.key_ne_nil {p : Str} (hD : D ≠ []) (h : Good D p) : keyOf cfg.cwd p ≠ [] := by
  intro e
  have := h.key cfg
  rw [e] at this
  exact hD (List.prefix_nil.mp this)

theorem B_fail (s : St) (e : Err) (h : B D cfg.cwd fs0 s) : B D cfg.cwd fs0 (s.fail e) :=
  ⟨Inv_fail _ h.1, LGc_of_failed rfl⟩

theorem B_didInstall (s : St) (h : B D cfg.cwd fs0 s) : B D cfg.cwd fs0 { s with didInstall := true } :=
  ⟨Inv_of_fs rfl h.1, LGc_of_shape (s := s) rfl rfl (fun _ => rfl) (fun hf => hf) h.2⟩

theorem B_chmodNode (k : Key) (m : Nat) (s : St) (hk : D <+: k) (hne : k ≠ []) (h : B D cfg.cwd fs0 s) :
    B D cfg.cwd fs0 (chmodNode k m s) :=
  ⟨Inv_chmodNode k m s hk h.1, LGc_chmodNode k m s hne h.2⟩

theorem B_sanitize (k : Key) (s : St) (hk : D <+: k) (hne : k ≠ []) (h : B D cfg.cwd fs0 s) :
    B D cfg.cwd fs0 (sanitize cfg k s) :=
  ⟨Inv_sanitize cfg k s hk h.1, LGc_sanitize cfg k s hne h.2⟩

theorem B_setMode (k : Key) (m : Option FileMode) (s : St) (hk : D <+: k) (hne : k ≠ []) (h : B D cfg.cwd fs0 s) :
    B D cfg.cwd fs0 (setMode cfg k m s) :=
  ⟨Inv_setMode cfg k m s hk h.1, LGc_setMode cfg k m s hne h.2⟩

include hdry hfresh in
theorem B_dmMakedirs (path : Str) (b : Bool) (s : St) (hp : GoodDir D path) (h : B D cfg.cwd fs0 s) :
    B D cfg.cwd fs0 (dmMakedirs cfg path b s) :=
  ⟨Inv_dmMakedirs cfg path b s (hp.key cfg) h.1, LGc_dmMakedirs cfg hdry path b s hp hfresh h.1 h.2⟩

include hdry hD hfresh in
theorem B_doCopyfile (fp : Str) (src : Src) (to : Str) (mk : Option Str) (fo : Option Bool) (s : St)
    (ht : Good D to) (hmk : ∀ od, mk = some od → GoodDir D od) (hb : basename fp ≠ dotdot)
    (hsrc : noLinkSrc src = true) (h : B D cfg.cwd fs0 s) :
    B D cfg.cwd fs0 (doCopyfile cfg fp src to mk fo s).1 :=
  ⟨Inv_doCopyfile cfg fp src to mk fo s ht hmk hb h.1,
   LGc_doCopyfile cfg hdry fp src to mk fo s ht hmk hD hsrc hfresh h.1 h.2⟩

include hdry hD hfresh in
theorem B_copydirDirStep (dst : Str) (ex : List Str) (rel : List Str) (a : CdAcc) (e : Str × DirEnt)
    (hd : Good D dst) (hrel : ∀ c ∈ rel, Plain c) (hn : Plain e.1) (hreal : ∃ m, e.2 = .real m)
    (h : B D cfg.cwd fs0 a.s) : B D cfg.cwd fs0 (copydirDirStep cfg dst ex rel a e).s := by
  have hg : Good D (join dst (filepart rel e.1)) := hd.filepart hrel hn
  have hk := hg.key cfg
  have hne := hg.key_ne_nil cfg hD
  have hmk : B D cfg.cwd fs0 (dmMakedirs cfg (join dst (filepart rel e.1)) false a.s) :=
    B_dmMakedirs cfg hdry hfresh _ _ _ hg.toDir h
  obtain ⟨m, hm⟩ := hreal
  unfold copydirDirStep
  rw [hm]
  dsimp only
  (repeat' split) <;> first
    | exact h
    | exact B_fail cfg _ _ h
    | exact hmk
    | exact B_chmodNode cfg _ _ _ hk hne hmk
    | exact B_sanitize cfg _ _ hk hne hmk
    | exact B_sanitize cfg _ _ hk hne (B_chmodNode cfg _ _ _ hk hne hmk)

include hdry hD hfresh in
theorem B_fileStepTail (sr dst : Str) (rel : List Str) (m : Option FileMode) (fo : Option Bool)
    (e : Str × Src) (s1 : St) (hg : Good D (join dst (filepart rel e.1)))
    (hb : basename (join sr e.1) ≠ dotdot) (hsrc : noLinkSrc e.2 = true) (h1 : B D cfg.cwd fs0 s1) :
    B D cfg.cwd fs0 (if s1.failed = true then s1 else
      if (doCopyfile cfg (join sr e.1) e.2 (join dst (filepart rel e.1)) none fo s1).1.failed = true then
        (doCopyfile cfg (join sr e.1) e.2 (join dst (filepart rel e.1)) none fo s1).1
      else setMode cfg (keyOf cfg.cwd (join dst (filepart rel e.1))) m
        (doCopyfile cfg (join sr e.1) e.2 (join dst (filepart rel e.1)) none fo s1).1) := by
  have h2 := B_doCopyfile cfg hdry hD hfresh (join sr e.1) e.2 (join dst (filepart rel e.1)) none fo s1 hg
    (by intro od h; cases h) hb hsrc h1
  split
  · exact h1
  · split
    · exact h2
    · exact B_setMode cfg _ _ _ (hg.key cfg) (hg.key_ne_nil cfg hD) h2

include hdry hD hfresh in
theorem B_copydirFileStep (sr dst : Str) (ex : List Str) (rel : List Str) (rm : Nat) (m : Option FileMode)
    (fo : Option Bool) (s : St) (e : Str × Src)
    (hd : Good D dst) (hrel : ∀ c ∈ rel, Plain c) (hn : Plain e.1) (hsrc : noLinkSrc e.2 = true)
    (h : B D cfg.cwd fs0 s) :
    B D cfg.cwd fs0 (copydirFileStep cfg sr dst ex rel rm m fo s e) := by
  have hg : Good D (join dst (filepart rel e.1)) := hd.filepart hrel hn
  have hp : Good D (dirname (join dst (filepart rel e.1))) := good_filepart_dirname hd hrel hn
  have hb : basename (join sr e.1) ≠ dotdot := by rw [basename_join sr e.1 hn.2.1]; exact hn.2.2.1
  unfold copydirFileStep
  dsimp only
  split
  · exact h
  · split
    · exact h
    · split
      · exact B_fail cfg _ _ h
      · have h1 : B D cfg.cwd fs0
            (if (!isDirF s (keyOf cfg.cwd (dirname (join dst (filepart rel e.1))))) = true then
              if (dmMakedirs cfg (dirname (join dst (filepart rel e.1))) false s).failed = true then
                dmMakedirs cfg (dirname (join dst (filepart rel e.1))) false s
              else if cfg.dryRun = true then dmMakedirs cfg (dirname (join dst (filepart rel e.1))) false s
              else chmodNode (keyOf cfg.cwd (dirname (join dst (filepart rel e.1)))) rm
                (dmMakedirs cfg (dirname (join dst (filepart rel e.1))) false s)
            else s) := by
          have hmk := B_dmMakedirs cfg hdry hfresh (dirname (join dst (filepart rel e.1))) false s hp.toDir h
          split
          · split
            · exact hmk
            · split
              · exact hmk
              · exact B_chmodNode cfg _ _ _ (hp.key cfg) (hp.key_ne_nil cfg hD) hmk
          · exact h
        exact B_fileStepTail cfg hdry hD hfresh sr dst rel m fo e _ hg hb hsrc h1

def isRealDir : DirEnt → Bool
  | .real _ => true
  | .link _ => false

theorem isRealDir_elim {e : DirEnt} (h : isRealDir e = true) : ∃ m, e = DirEnt.real m := by
  cases e with
  | real m => exact ⟨m, rfl⟩
  | link _ => cases h

/-- a recorded walk without symbolic links -/
def WalkNoLinks (w : List WalkRec) : Prop :=
  ∀ r ∈ w, (∀ e ∈ r.dirs, isRealDir e.2 = true) ∧ (∀ e ∈ r.files, noLinkSrc e.2 = true)

instance (w : List WalkRec) : Decidable (WalkNoLinks w) := by unfold WalkNoLinks; infer_instance

theorem copydirDirStep_extra_real (dst : Str) (ex : List Str) (rel : List Str) (a : CdAcc) (e : Str × DirEnt)
    (hreal : ∃ m, e.2 = .real m) : (copydirDirStep cfg dst ex rel a e).extra = a.extra := by
  obtain ⟨m, hm⟩ := hreal
  unfold copydirDirStep
  rw [hm]
  dsimp only
  (repeat' split) <;> rfl

include hdry hD hfresh in
theorem B_copydirRec (sd dd : Str) (ef ed : List Str) (m : Option FileMode) (fo : Option Bool)
    (st : St × List (List Str)) (r : WalkRec) (hd : Good D dd)
    (hr : (∀ c ∈ r.rel, Plain c) ∧ (∀ e ∈ r.dirs, Plain e.1) ∧ (∀ e ∈ r.files, Plain e.1))
    (hl : (∀ e ∈ r.dirs, isRealDir e.2 = true) ∧ (∀ e ∈ r.files, noLinkSrc e.2 = true))
    (h : B D cfg.cwd fs0 st.1) : B D cfg.cwd fs0 (copydirRec cfg sd dd ef ed m fo st r).1 := by
  unfold copydirRec
  dsimp only
  split
  · exact h
  · split
    · exact h
    · have hacc := foldl_pres (fun a : CdAcc => B D cfg.cwd fs0 a.s ∧ a.extra = [])
        (fun e : Str × DirEnt => Plain e.1 ∧ ∃ m, e.2 = DirEnt.real m)
        (copydirDirStep cfg dd ed r.rel)
        (fun a e he ha => ⟨B_copydirDirStep cfg hdry hD hfresh dd ed r.rel a e hd hr.1 he.1 he.2 ha.1,
          by rw [copydirDirStep_extra_real cfg dd ed r.rel a e he.2]; exact ha.2⟩)
        r.dirs (fun e he => ⟨hr.2.1 e he, isRealDir_elim (hl.1 e he)⟩) { s := st.1, pruned := st.2, extra := [] } ⟨h, rfl⟩
      rw [hacc.2, List.append_nil]
      exact foldl_pres (fun s : St => B D cfg.cwd fs0 s) (fun e : Str × Src => Plain e.1 ∧ noLinkSrc e.2 = true) _
        (fun s e he hs => B_copydirFileStep cfg hdry hD hfresh _ dd ef r.rel r.rootMode m fo s e hd hr.1 he.1 he.2 hs)
        _ (fun e he => ⟨hr.2.2 e he, hl.2 e he⟩) _ hacc.1

include hdry hD hfresh in
theorem B_doCopydir (sd dd : Str) (ex : Option (List Str × List Str)) (m : Option FileMode) (fo : Option Bool)
    (w : List WalkRec) (s : St) (hd : Good D dd) (hw : WalkOK w) (hwl : WalkNoLinks w)
    (h : B D cfg.cwd fs0 s) : B D cfg.cwd fs0 (doCopydir cfg sd dd ex m fo w s) := by
  unfold doCopydir
  dsimp only
  split
  · exact h
  · split
    · exact B_fail cfg _ _ h
    · split
      · exact B_fail cfg _ _ h
      · exact foldl_pres (fun st : St × List (List Str) => B D cfg.cwd fs0 st.1)
          (fun r : WalkRec => ((∀ c ∈ r.rel, Plain c) ∧ (∀ e ∈ r.dirs, Plain e.1) ∧ (∀ e ∈ r.files, Plain e.1)) ∧
            ((∀ e ∈ r.dirs, isRealDir e.2 = true) ∧ (∀ e ∈ r.files, noLinkSrc e.2 = true))) _
          (fun st r hr hs => B_copydirRec cfg hdry hD hfresh sd dd _ _ m fo st r hd hr.1 hr.2 hs) w
          (fun r hr => ⟨hw r hr, hwl r hr⟩) (s, []) h

/-! ### the `install_*` methods -/

variable (hdest : Dest cfg D)

include hdry hD hfresh hdest in
theorem B_installSubdir (s : St) (e : SubdirEntry) (hw : WalkOK e.walk) (hwl : WalkNoLinks e.walk)
    (h : B D cfg.cwd fs0 s) : B D cfg.cwd fs0 (installSubdir cfg s e) := by
  unfold installSubdir
  dsimp only
  split
  · exact h
  · split
    · exact h
    · split
      · exact B_fail cfg _ _ (B_didInstall cfg s h)
      · rename_i out hout
        have hg := hdest _ _ hout
        exact B_doCopydir cfg hdry hD hfresh _ _ _ _ _ _ _ hg hw hwl
          (B_dmMakedirs cfg hdry hfresh _ _ _ hg.toDir (B_didInstall cfg s h))

include hdry hD hfresh in
theorem B_installFileTo (e : DataEntry) (out outdir : Str) (fo : Option Bool) (s : St)
    (hg : Good D out) (hod : GoodDir D outdir) (hb : basename e.path ≠ dotdot) (hsrc : noLinkSrc e.src = true)
    (h : B D cfg.cwd fs0 s) : B D cfg.cwd fs0 (installFileTo cfg e out outdir fo s) := by
  have h1 := B_doCopyfile cfg hdry hD hfresh e.path e.src out (some outdir) fo s hg
    (by intro od h; cases h; exact hod) hb hsrc h
  unfold installFileTo
  dsimp only
  split
  · exact h1
  · split
    · exact B_setMode cfg _ _ _ (hg.key cfg) (hg.key_ne_nil cfg hD) (B_didInstall cfg _ h1)
    · exact B_setMode cfg _ _ _ (hg.key cfg) (hg.key_ne_nil cfg hD) h1

include hdry hD hfresh hdest in
theorem B_installHeader (s : St) (e : DataEntry) (hb : basename e.path ≠ dotdot) (hsrc : noLinkSrc e.src = true)
    (h : B D cfg.cwd fs0 s) : B D cfg.cwd fs0 (installHeader cfg s e) := by
  unfold installHeader
  try dsimp only
  split
  · exact h
  · split
    · exact h
    · split
      · exact B_fail cfg _ _ h
      · rename_i out hout
        have hg := hdest _ _ hout
        exact B_installFileTo cfg hdry hD hfresh e _ _ _ s (hg.join_name (basename_noSep _) hb) hg.toDir hb hsrc h

include hdry hD hfresh hdest in
theorem B_installMan (s : St) (e : DataEntry) (hb : basename e.path ≠ dotdot) (hsrc : noLinkSrc e.src = true)
    (h : B D cfg.cwd fs0 s) : B D cfg.cwd fs0 (installMan cfg s e) := by
  unfold installMan
  try dsimp only
  split
  · exact h
  · split
    · exact h
    · split
      · exact B_fail cfg _ _ h
      · rename_i out hout
        have hg := hdest _ _ hout
        exact B_installFileTo cfg hdry hD hfresh e _ _ _ s hg hg.dirname hb hsrc h

include hdry hD hfresh hdest in
theorem B_installDataOne (s : St) (e : DataEntry) (hb : basename e.path ≠ dotdot) (hsrc : noLinkSrc e.src = true)
    (h : B D cfg.cwd fs0 s) : B D cfg.cwd fs0 (installDataOne cfg s e) := by
  unfold installDataOne
  try dsimp only
  split
  · exact h
  · split
    · exact h
    · split
      · exact B_fail cfg _ _ h
      · rename_i out hout
        have hg := hdest _ _ hout
        exact B_installFileTo cfg hdry hD hfresh e _ _ _ s hg hg.dirname hb hsrc h

include hdry hD hfresh hdest in
theorem B_installEmptydir (s : St) (e : EmptyDirEntry) (h : B D cfg.cwd fs0 s) :
    B D cfg.cwd fs0 (installEmptydir cfg s e) := by
  unfold installEmptydir
  dsimp only
  split
  · exact h
  · split
    · exact h
    · split
      · exact B_fail cfg _ _ (B_didInstall cfg s h)
      · rename_i out hout
        have hg := hdest _ _ hout
        have h1 := B_dmMakedirs cfg hdry hfresh out true _ hg.toDir (B_didInstall cfg s h)
        split
        · exact B_fail cfg _ _ (B_didInstall cfg s h)
        · split
          · exact h1
          · exact B_setMode cfg _ _ _ (hg.key cfg) (hg.key_ne_nil cfg hD) h1

include hdry hD hfresh hdest in
theorem B_installTarget (buildDir : Str) (hbd : cfg.buildDir = buildDir) (s : St) (t : TargetEntry)
    (ht : WalkOK t.walk ∧ basename t.fname ≠ dotdot ∧ basename (join buildDir (rstripSlash t.fname)) ≠ dotdot)
    (hl : noLinkSrc t.src = true ∧ WalkNoLinks t.walk)
    (h : B D cfg.cwd fs0 s) : B D cfg.cwd fs0 (installTarget cfg s t) := by
  unfold installTarget
  dsimp only
  split
  · exact h
  · split
    · exact h
    · cases hsrc : t.src with
      | missing =>
        dsimp only
        split
        · exact h
        · exact B_fail cfg _ _ h
      | linkDangling _ => rw [hsrc] at hl; cases hl.1
      | linkFile _ _ _ _ => rw [hsrc] at hl; cases hl.1
      | linkDir _ => rw [hsrc] at hl; cases hl.1
      | file m d tt =>
        dsimp only
        split
        · exact B_fail cfg _ _ h
        · rename_i out hout
          have hg := hdest _ _ hout
          have hgo := hg.join_name (basename_noSep t.fname) ht.2.1
          have h1 := B_doCopyfile cfg hdry hD hfresh t.fname (.file m d tt) _ (some out) none s hgo
            (by intro od h; cases h; exact hg.toDir) ht.2.1 rfl h
          split
          · exact h1
          · split
            · exact B_setMode cfg _ _ _ (hgo.key cfg) (hgo.key_ne_nil cfg hD) (B_didInstall cfg _ h1)
            · exact h1
      | dir =>
        dsimp only
        split
        · exact B_fail cfg _ _ h
        · rename_i out hout
          have hg := hdest _ _ hout
          have hgo : Good D (join out (basename (join cfg.buildDir (rstripSlash t.fname)))) :=
            hg.join_name (basename_noSep _) (by rw [hbd]; exact ht.2.2)
          exact B_doCopydir cfg hdry hD hfresh _ _ _ _ _ _ _ hgo ht.1 hl.2
            (B_dmMakedirs cfg hdry hfresh _ _ _ hg.toDir h)

end

end MesonModel.Install
