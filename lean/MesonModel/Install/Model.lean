/-
Executable model of `mesonbuild/minstall.py` (`Installer`, `DirMaker`, `do_copyfile`, `do_copydir`,
`do_symlink`, `set_mode`/`sanitize_permissions`, the `install_*` methods, dry-run wrappers, the log) and of
`mesonbuild/scripts/uninstall.py`, over an abstract file system.

Core Lean only.  The model follows the Python source construct by construct; every loop is a fold over
the plan, every mutation of the file system goes through `St.write`/`St.erase`, which also record the
touched key in the ghost field `written` (used by the theorems only).

Not modelled (parameters of the property): `chown` beyond "the path must exist", SELinux, `strip`,
rpath fixing, install scripts, stamp-file and `.js/.wasm` special cases of `install_targets`.
Symbolic links are leaves: a path whose *intermediate* component is a symlink is outside the domain.
-/
import MesonModel.Py.Str
import MesonModel.Install.Path

namespace MesonModel.Install
open MesonModel.Py

/-! ### abstract file system -/

inductive Node
  | dir (mode : Nat)
  | file (mode digest mtime : Nat)
  | link (target : Str)
deriving DecidableEq, Repr, Inhabited

/-- association list, first binding wins; the root `[]` is an implicit directory -/
abbrev FS := List (Key × Node)

def FS.get : FS → Key → Option Node
  | [], _ => none
  | (k', n) :: t, k => if k' = k then some n else FS.get t k

def FS.del (fs : FS) (k : Key) : FS := fs.filter (fun e => e.1 ≠ k)

def FS.set (fs : FS) (k : Key) (n : Node) : FS := (k, n) :: fs.del k

/-- `lstat`: the root always exists -/
def FS.look (fs : FS) (k : Key) : Option Node :=
  if k = [] then some (.dir 0o755) else fs.get k

def keyToStr (k : Key) : Str := '/' :: joinWith '/' k

/-- `stat`: one level of symlink resolution (relative targets are resolved against the link's directory);
a link to a link counts as dangling (chains are outside the validated domain) -/
def FS.follow (fs : FS) (k : Key) : Option Node :=
  match fs.look k with
  | some (.link t) =>
    match fs.look (keyOfAbs (join (keyToStr k.dropLast) t)) with
    | some (.link _) => none
    | r => r
  | r => r

def FS.hasChildren (fs : FS) (k : Key) : Bool :=
  fs.any (fun e => e.1 ≠ [] && e.1.dropLast = k)

/-! ### plan -/

inductive Err
  | meson        -- MesonException
  | exit         -- sys.exit(1)
  | os           -- OSError family (FileExistsError, NotADirectoryError, FileNotFoundError, IsADirectoryError)
  | value        -- ValueError
  | unsupported  -- behaviour outside the modelled domain (writing through a symlink)
deriving DecidableEq, Repr

/-- what a source path is at install time -/
inductive Src
  | missing
  | file (mode digest mtime : Nat)
  | dir
  | linkDangling (target : Str)
  | linkFile (target : Str) (mode digest mtime : Nat)
  | linkDir (target : Str)
deriving DecidableEq, Repr

/-- `mesonlib.FileMode`: `perms` is `FileMode.perms` when `perms_s` is given; `chown` = owner or group given -/
structure FileMode where
  perms : Option Nat
  chown : Bool
deriving DecidableEq, Repr

inductive DirEnt
  | real (mode : Nat)
  | link (target : Str)
deriving DecidableEq, Repr

/-- one `(root, dirs, files)` triple of the unpruned `os.walk(src_dir)`; `rel` is `root` relative to `src_dir` -/
structure WalkRec where
  rel : List Str
  rootMode : Nat
  dirs : List (Str × DirEnt)
  files : List (Str × Src)
deriving Repr

/-- `InstallDataBase` (data, headers, man) -/
structure DataEntry where
  path : Str
  src : Src
  installPath : Str
  mode : Option FileMode
  subproject : Str
  tag : Option Str
  follow : Option Bool
deriving Repr

structure SubdirEntry where
  path : Str
  installPath : Str
  mode : Option FileMode
  exclude : Option (List Str × List Str)   -- (exclude_files, exclude_dirs)
  subproject : Str
  tag : Option Str
  follow : Option Bool
  walk : List WalkRec
deriving Repr

structure TargetEntry where
  fname : Str
  src : Src
  outdir : Str
  mode : Option FileMode
  subproject : Str
  tag : Option Str
  optional : Bool
  walk : List WalkRec
deriving Repr

structure EmptyDirEntry where
  path : Str
  mode : Option FileMode
  subproject : Str
  tag : Option Str
deriving Repr

structure SymlinkEntry where
  target : Str
  name : Str
  installPath : Str
  subproject : Str
  tag : Option Str
deriving Repr

/-- `InstallData` -/
structure Plan where
  buildDir : Str
  pfx : Str
  umask : Option Nat            -- `none` is `'preserve'`
  subdirs : List SubdirEntry
  targets : List TargetEntry
  headers : List DataEntry
  man : List DataEntry
  emptydirs : List EmptyDirEntry
  data : List DataEntry
  symlinks : List SymlinkEntry
deriving Repr

/-- command line options of `meson install` plus the process environment that matters -/
structure Opts where
  destdir : Option Str          -- `--destdir`, else `$DESTDIR`
  dryRun : Bool
  onlyChanged : Bool
  tags : Option Str             -- raw `--tags`
  skipSubprojects : Str         -- raw `--skip-subprojects`
  ambientUmask : Nat            -- process umask before `do_install`
deriving Repr

/-- everything `do_install` derives before the installers run -/
structure Cfg where
  cwd : Str
  buildDir : Str
  destdir : Str
  fullprefix : Str
  umask : Option Nat
  procUmask : Nat
  dryRun : Bool
  onlyChanged : Bool
  tags : Option (List Str)
  skip : List Str
deriving Repr

/-- `[i.strip() for i in s.split(',')]` -/
def parseList (s : Str) : List Str := (splitOn ',' s).map strip

def resolveDestdir (buildDir : Str) (d : Option Str) : Str :=
  match d with
  | none => []
  | some d => if d ≠ [] && !isAbs d then join buildDir d else d

def mkCfg (p : Plan) (o : Opts) : Cfg :=
  let destdir := resolveDestdir p.buildDir o.destdir
  { cwd := p.buildDir, buildDir := p.buildDir, destdir := destdir,
    fullprefix := destdirJoin destdir p.pfx,
    umask := p.umask, procUmask := p.umask.getD o.ambientUmask,
    dryRun := o.dryRun, onlyChanged := o.onlyChanged,
    tags := match o.tags with
      | none => none
      | some t => if t = [] then none else some (parseList t),
    skip := parseList o.skipSubprojects }

/-- `Installer.should_install` -/
def shouldInstall (cfg : Cfg) (subproject : Str) (tag : Option Str) : Bool :=
  if subproject ≠ [] && (cfg.skip.contains subproject || cfg.skip.contains ['*']) then false
  else match cfg.tags with
    | none => true
    | some ts =>
      if ts ≠ [] && !(match tag with | some t => ts.contains t | none => false) then false else true

/-! ### permission arithmetic -/

/-- `x & ~u` -/
def andNot (x u : Nat) : Nat := x ^^^ (x &&& u)

/-- `sanitize_permissions`: `0o777` if any execute bit is set else `0o666`, masked by the umask -/
def sanitizedMode (cur umask : Nat) : Nat :=
  andNot (if cur &&& 0o111 ≠ 0 then 0o777 else 0o666) umask

def permChar (s : Str) (i : Nat) : Char := s.getD i ' '

/-- `FileMode.perms_s_to_bits` for a string argument; `none` is the `MesonException` -/
def permsBits (s : Str) : Option Nat :=
  let okRW (i : Nat) (c : Char) : Bool := permChar s i = c || permChar s i = '-'
  let okX (i : Nat) (a b : Char) : Bool :=
    permChar s i = 'x' || permChar s i = a || permChar s i = b || permChar s i = '-'
  if s.length ≠ 9 ||
     !(okRW 0 'r' && okRW 1 'w' && okX 2 's' 'S' && okRW 3 'r' && okRW 4 'w' && okX 5 's' 'S' &&
       okRW 6 'r' && okRW 7 'w' && okX 8 't' 'T') then none
  else
    let b (i : Nat) (c : Char) (v : Nat) : Nat := if permChar s i = c then v else 0
    some (b 0 'r' 0o400 + b 1 'w' 0o200 + b 2 'x' 0o100 + b 2 'S' 0o4000 + b 2 's' 0o4100 +
          b 3 'r' 0o040 + b 4 'w' 0o020 + b 5 'x' 0o010 + b 5 'S' 0o2000 + b 5 's' 0o2010 +
          b 6 'r' 0o004 + b 7 'w' 0o002 + b 8 'x' 0o001 + b 8 'T' 0o1000 + b 8 't' 0o1001)

/-! ### installer state -/

structure St where
  fs : FS
  log : List Str := []          -- lines of install-log.txt (without the newline)
  dirs : List Str := []         -- `DirMaker.dirs`
  written : List Key := []      -- ghost: every key whose binding was set or erased
  didInstall : Bool := false
  preserved : Nat := 0
  symErr : Bool := false        -- `printed_symlink_error`
  err : Option Err := none
deriving Repr

def St.fail (s : St) (e : Err) : St := { s with err := some e }
def St.logLine (s : St) (l : Str) : St := { s with log := s.log ++ [l] }
def St.write (s : St) (k : Key) (n : Node) : St := { s with fs := s.fs.set k n, written := k :: s.written }
def St.erase (s : St) (k : Key) : St := { s with fs := s.fs.del k, written := k :: s.written }
def St.failed (s : St) : Bool := s.err.isSome

def existsF (s : St) (k : Key) : Bool := (s.fs.follow k).isSome
def isFileF (s : St) (k : Key) : Bool := match s.fs.follow k with | some (.file ..) => true | _ => false
def isDirF (s : St) (k : Key) : Bool := match s.fs.follow k with | some (.dir _) => true | _ => false
def lexists (s : St) (k : Key) : Bool := (s.fs.look k).isSome
def isLink (s : St) (k : Key) : Bool := match s.fs.look k with | some (.link _) => true | _ => false

/-- `os.makedirs(path, exist_ok)`: create the missing prefixes of the key, shortest first -/
def mkdirsGo (mode : Nat) (existOk : Bool) (pre : Key) : List Str → St → St
  | [], s => s
  | c :: rest, s =>
    let k := pre ++ [c]
    match s.fs.follow k with
    | none =>
      if (s.fs.look k).isSome then s.fail .os
      else mkdirsGo mode existOk k rest (s.write k (.dir mode))
    | some (.dir _) =>
      if rest = [] && !existOk then s.fail .os else mkdirsGo mode existOk k rest s
    | some _ => s.fail .os

/-- `Installer.makedirs` (dry-run wrapper around `os.makedirs`, mode `0o777 & ~umask`) -/
def mkdirs (cfg : Cfg) (path : Str) (existOk : Bool) (s : St) : St :=
  if cfg.dryRun then s
  else
    let k := keyOf cfg.cwd path
    if k = [] then (if existOk then s else s.fail .os)
    else mkdirsGo (andNot 0o777 cfg.procUmask) existOk [] k s

/-- the `while dirname != os.path.dirname(dirname)` loop of `DirMaker.makedirs` -/
def dmCollect (cfg : Cfg) (s : St) : Nat → Str → List Str → List Str
  | 0, _, acc => acc
  | fuel + 1, d, acc =>
    if d = dirname d then acc
    else if s.dirs.contains d then acc
    else dmCollect cfg s fuel (dirname d) (if existsF s (keyOf cfg.cwd d) then acc else acc ++ [d])

/-- `DirMaker.makedirs` -/
def dmMakedirs (cfg : Cfg) (path : Str) (existOk : Bool) (s : St) : St :=
  let d0 := normpath path
  let acc := dmCollect cfg s (d0.length + 1) d0 []
  let s1 := mkdirs cfg path existOk s
  if s1.failed then s1 else { s1 with dirs := s1.dirs ++ acc.reverse }

/-- `os.chmod(path, mode, follow_symlinks=False)` as wrapped by `set_chmod` -/
def chmodNode (k : Key) (mode : Nat) (s : St) : St :=
  match s.fs.look k with
  | none => s.fail .os
  | some (.link _) => s
  | some (.dir _) => s.write k (.dir mode)
  | some (.file _ d t) => s.write k (.file mode d t)

/-- `sanitize_permissions` (the function, not the dry-run wrapper) -/
def sanitize (cfg : Cfg) (k : Key) (s : St) : St :=
  match cfg.umask with
  | none => s
  | some u =>
    match s.fs.look k with
    | none => s.fail .os
    | some (.link _) => s
    | some (.dir m) => s.write k (.dir (sanitizedMode m u))
    | some (.file m d t) => s.write k (.file (sanitizedMode m u) d t)

/-- `Installer.set_mode` → `set_mode` -/
def setMode (cfg : Cfg) (k : Key) (mode : Option FileMode) (s : St) : St :=
  if cfg.dryRun then s else
  match mode with
  | none => sanitize cfg k s
  | some m =>
    if m.perms.isNone && !m.chown then sanitize cfg k s
    else if m.chown && !lexists s k then s.fail .os
    else match m.perms with
      | some p => chmodNode k p s
      | none => sanitize cfg k s

/-- `Installer.remove` -/
def remove (cfg : Cfg) (k : Key) (s : St) : St := if cfg.dryRun then s else s.erase k

/-- `shutil.copy2(src, dst)` of regular content (after `copystat` the destination has the source's mode and mtime) -/
def putFile (cfg : Cfg) (k : Key) (m d t : Nat) (s : St) : St :=
  if cfg.dryRun then s else
  match s.fs.look k with
  | some (.link _) => s.fail .unsupported
  | some (.dir _) => s.fail .os
  | _ => if isDirF s k.dropLast then s.write k (.file m d t) else s.fail .os

/-- `os.symlink(target, dst)` reached through `shutil.copy*(…, follow_symlinks=False)` -/
def putLink (cfg : Cfg) (k : Key) (target : Str) (s : St) : St :=
  if cfg.dryRun then s else
  if lexists s k then s.fail .os
  else if isDirF s k.dropLast then s.write k (.link target) else s.fail .os

def srcCopyable : Src → Bool
  | .file .. | .linkDangling _ | .linkFile .. | .linkDir _ => true
  | _ => false

/-- `Installer.should_preserve_existing_file` -/
def shouldPreserve (cfg : Cfg) (src : Src) (s : St) (kt : Key) : Bool :=
  if !cfg.onlyChanged then false else
  match src with
  | .file _ _ mt | .linkFile _ _ _ mt =>
    (match s.fs.follow kt with
     | some (.file _ _ tt) => decide (mt ≤ tt)
     | _ => false)
  | _ => false

def preservingPrefix : Str := "# Preserving old file ".toList

/-- first half of `do_copyfile`: what happens to an existing destination / the missing directory.
Result: state, the value of the local `outdir`, and whether the function returns `False` here -/
def copyPrepare (cfg : Cfg) (src : Src) (toFile : Str) (mk : Option Str) (s : St) : St × Str × Bool :=
  let outdir0 := dirname toFile
  let kt := keyOf cfg.cwd toFile
  if lexists s kt then
    if !isFileF s kt && !isLink s kt then (s.fail .meson, outdir0, true)
    else if isFileF s kt && shouldPreserve cfg src s kt then
      (({ s with preserved := s.preserved + 1 }).logLine (preservingPrefix ++ toFile), outdir0, true)
    else (remove cfg kt s, outdir0, false)
  else match mk with
    | some od => (dmMakedirs cfg od true s, od, false)
    | none => (s, outdir0, false)

/-- second half of `do_copyfile`: the `shutil.copy*` call chosen by the kind of source -/
def copyPayload (cfg : Cfg) (fromPath : Str) (src : Src) (toFile outdir : Str) (follow : Option Bool)
    (s1 : St) : St :=
  let kt := keyOf cfg.cwd toFile
  match src with
  | .linkDangling t =>
    -- `shutil.copy(from_file, to_file, follow_symlinks=False)`: a directory destination would receive the basename
    let dst := if isDirF s1 kt then keyOf cfg.cwd (join toFile (basename fromPath)) else kt
    putLink cfg dst t s1
  | .linkFile t m d mt => if follow.getD true then putFile cfg kt m d mt s1 else putLink cfg kt t s1
  | .linkDir t =>
    if follow.getD true then (if cfg.dryRun then s1 else s1.fail .os) else putLink cfg kt t s1
  | .file m d mt => putFile cfg kt m d mt s1
  | _ => s1

/-- `Installer.do_copyfile`; the Boolean is its return value -/
def doCopyfile (cfg : Cfg) (fromPath : Str) (src : Src) (toFile : Str) (mk : Option Str)
    (follow : Option Bool) (s : St) : St × Bool :=
  if !srcCopyable src then (s.fail .meson, false) else
  let r := copyPrepare cfg src toFile mk s
  if r.2.2 || r.1.failed then (r.1, false) else
  let s2 := copyPayload cfg fromPath src toFile r.2.1 follow r.1
  if s2.failed then (s2, false) else (s2.logLine toFile, true)

/-- `Installer.do_symlink` (the `OSError` of `os.symlink` is caught and reported once) -/
def doSymlink (cfg : Cfg) (target link : Str) (s : St) : St × Bool :=
  let kl := keyOf cfg.cwd link
  let s1 := if lexists s kl then (if !isLink s kl then s.fail .meson else remove cfg kl s) else s
  if s1.failed then (s1, false) else
  if cfg.dryRun then (s1.logLine link, true) else
  if lexists s1 kl || !isDirF s1 kl.dropLast then ({ s1 with symErr := true }, false)
  else ((s1.write kl (.link target)).logLine link, true)

/-! ### `do_copydir` -/

def filepart (rel : List Str) (name : Str) : Str := joinWith '/' (rel ++ [name])

structure CdAcc where
  s : St
  pruned : List (List Str)
  extra : List (Str × Src)

def copydirDirStep (cfg : Cfg) (dstDir : Str) (exclD : List Str) (rel : List Str)
    (a : CdAcc) (e : Str × DirEnt) : CdAcc :=
  if a.s.failed then a else
  let fp := filepart rel e.1
  let absDst := join dstDir fp
  let kd := keyOf cfg.cwd absDst
  match e.2 with
  | .link t => { a with extra := a.extra ++ [(e.1, Src.linkDir t)] }
  | .real m =>
    if exclD.contains fp then { a with pruned := a.pruned ++ [rel ++ [e.1]] }
    else if isDirF a.s kd then a
    else if existsF a.s kd then { a with s := a.s.fail .exit }
    else
      let s1 := dmMakedirs cfg absDst false a.s
      if s1.failed then { a with s := s1 } else
      let s2 := if cfg.dryRun then s1 else chmodNode kd m s1         -- copystat
      if s2.failed then { a with s := s2 } else
      let s3 := if cfg.dryRun then s2 else sanitize cfg kd s2
      { a with s := s3 }

def copydirFileStep (cfg : Cfg) (srcRoot dstDir : Str) (exclF : List Str) (rel : List Str) (rootMode : Nat)
    (mode : Option FileMode) (follow : Option Bool) (s : St) (e : Str × Src) : St :=
  if s.failed then s else
  let fp := filepart rel e.1
  if exclF.contains fp then s else
  let absDst := join dstDir fp
  let kd := keyOf cfg.cwd absDst
  if isDirF s kd && !isLink s kd then s.fail .exit else
  let parent := dirname absDst
  let kp := keyOf cfg.cwd parent
  let s1 :=
    if !isDirF s kp then
      let s' := dmMakedirs cfg parent false s
      if s'.failed then s' else if cfg.dryRun then s' else chmodNode kp rootMode s'
    else s
  if s1.failed then s1 else
  let r := doCopyfile cfg (join srcRoot e.1) e.2 absDst none follow s1
  if r.1.failed then r.1 else setMode cfg kd mode r.1

def copydirRec (cfg : Cfg) (srcDir dstDir : Str) (exclF exclD : List Str) (mode : Option FileMode)
    (follow : Option Bool) (st : St × List (List Str)) (r : WalkRec) : St × List (List Str) :=
  if st.1.failed then st else
  if st.2.any (fun p => p.isPrefixOf r.rel) then st else
  let a := r.dirs.foldl (copydirDirStep cfg dstDir exclD r.rel) { s := st.1, pruned := st.2, extra := [] }
  let s2 := (r.files ++ a.extra).foldl
    (copydirFileStep cfg (joinMany srcDir r.rel) dstDir exclF r.rel r.rootMode mode follow) a.s
  (s2, a.pruned)

/-- `Installer.do_copydir` over the recorded walk of `src_dir` -/
def doCopydir (cfg : Cfg) (srcDir dstDir : Str) (exclude : Option (List Str × List Str))
    (mode : Option FileMode) (follow : Option Bool) (walk : List WalkRec) (s : St) : St :=
  if s.failed then s else
  if !isAbs srcDir then s.fail .value else
  if !isAbs dstDir then s.fail .value else
  let exclF := match exclude with | some e => e.1.map normpath | none => []
  let exclD := match exclude with | some e => e.2.map normpath | none => []
  (walk.foldl (copydirRec cfg srcDir dstDir exclF exclD mode follow) (s, [])).1

/-! ### the `install_*` methods -/

/-- `PurePath(os.path.normpath(p)).parts` -/
def normParts (p : Str) : List Str := pureParts (normpath p)

/-- the staging check of `get_destdir_path`: with DESTDIR set, the normalised result must lie in DESTDIR -/
def destOk (destdir output : Str) : Bool :=
  destdir = [] || (normParts destdir).isPrefixOf (normParts output)

/-- `get_destdir_path` with its `MesonException` (`none`) -/
def destPath (cfg : Cfg) (path : Str) : Option Str :=
  let out := getDestdirPath cfg.destdir cfg.fullprefix path
  if destOk cfg.destdir out then some out else none

def installSubdir (cfg : Cfg) (s : St) (e : SubdirEntry) : St :=
  if s.failed then s else
  if !shouldInstall cfg e.subproject e.tag then s else
  let s0 := { s with didInstall := true }
  match destPath cfg e.installPath with
  | none => s0.fail .meson
  | some fullDst =>
    let s1 := dmMakedirs cfg fullDst true s0
    doCopydir cfg e.path fullDst e.exclude e.mode e.follow e.walk s1

def installTarget (cfg : Cfg) (s : St) (t : TargetEntry) : St :=
  if s.failed then s else
  if !shouldInstall cfg t.subproject t.tag then s else
  match t.src with
  | .missing | .linkDangling _ => if t.optional then s else s.fail .meson
  | .file .. | .linkFile .. =>
    match destPath cfg t.outdir with
    | none => s.fail .meson
    | some outdir =>
      let outname := join outdir (basename t.fname)
      let r := doCopyfile cfg t.fname t.src outname (some outdir) none s
      if r.1.failed then r.1 else
      if r.2 then setMode cfg (keyOf cfg.cwd outname) t.mode { r.1 with didInstall := true } else r.1
  | .dir | .linkDir _ =>
    match destPath cfg t.outdir with
    | none => s.fail .meson
    | some outdir =>
      let fname := join cfg.buildDir (rstripSlash t.fname)
      let outname := join outdir (basename fname)
      let s1 := dmMakedirs cfg outdir true s
      doCopydir cfg fname outname none t.mode none t.walk s1

/-- body shared by `install_headers` / `install_man` / `install_data` once `outfilename` and `outdir` are known -/
def installFileTo (cfg : Cfg) (e : DataEntry) (outfilename outdir : Str) (follow : Option Bool) (s : St) : St :=
  let r := doCopyfile cfg e.path e.src outfilename (some outdir) follow s
  if r.1.failed then r.1 else
  let s2 := if r.2 then { r.1 with didInstall := true } else r.1
  setMode cfg (keyOf cfg.cwd outfilename) e.mode s2

def installHeader (cfg : Cfg) (s : St) (e : DataEntry) : St :=
  if s.failed then s else
  if !shouldInstall cfg e.subproject e.tag then s else
  match destPath cfg e.installPath with
  | none => s.fail .meson
  | some outdir => installFileTo cfg e (join outdir (basename e.path)) outdir e.follow s

def installMan (cfg : Cfg) (s : St) (e : DataEntry) : St :=
  if s.failed then s else
  if !shouldInstall cfg e.subproject e.tag then s else
  match destPath cfg e.installPath with
  | none => s.fail .meson
  | some out => installFileTo cfg e out (dirname out) none s

def installDataOne (cfg : Cfg) (s : St) (e : DataEntry) : St :=
  if s.failed then s else
  if !shouldInstall cfg e.subproject e.tag then s else
  match destPath cfg e.installPath with
  | none => s.fail .meson
  | some out => installFileTo cfg e out (dirname out) e.follow s

def installEmptydir (cfg : Cfg) (s : St) (e : EmptyDirEntry) : St :=
  if s.failed then s else
  if !shouldInstall cfg e.subproject e.tag then s else
  let s0 := { s with didInstall := true }
  match destPath cfg e.path with
  | none => s0.fail .meson
  | some full =>
    let k := keyOf cfg.cwd full
    if isFileF s0 k then s0.fail .exit else
    let s1 := dmMakedirs cfg full true s0
    if s1.failed then s1 else setMode cfg k e.mode s1

def installSymlink (cfg : Cfg) (s : St) (e : SymlinkEntry) : St :=
  if s.failed then s else
  if !shouldInstall cfg e.subproject e.tag then s else
  match destPath cfg e.installPath, destPath cfg e.name with
  | some fullDst, some fullLink =>
    let s1 := dmMakedirs cfg fullDst true s
    if s1.failed then s1 else
    let r := doSymlink cfg e.target fullLink s1
    if r.2 then { r.1 with didInstall := true } else r.1
  | _, _ => s.fail .meson

def logHeader : List Str :=
  ["# List of files installed by Meson".toList, "# Does not contain files installed by custom scripts.".toList]

/-- the installers in the order of `Installer.do_install`, without the `DirMaker.__exit__` epilogue -/
def installBody (cfg : Cfg) (p : Plan) (s : St) : St :=
  let s := p.subdirs.foldl (installSubdir cfg) s
  let s := p.targets.foldl (installTarget cfg) s
  let s := p.headers.foldl (installHeader cfg) s
  let s := p.man.foldl (installMan cfg) s
  let s := p.emptydirs.foldl (installEmptydir cfg) s
  let s := p.data.foldl (installDataOne cfg) s
  p.symlinks.foldl (installSymlink cfg) s

/-- `minstall.run` → `Installer.do_install`: header lines, installers, then `DirMaker.__exit__`
(which also runs when an installer raised) appends the created directories, last created first -/
def install (p : Plan) (o : Opts) (fs : FS) : St :=
  let cfg := mkCfg p o
  let s := installBody cfg p { fs := fs, log := logHeader }
  { s with log := s.log ++ s.dirs.reverse }

/-! ### `scripts/uninstall.py` -/

def uninstallLine (cwd : Str) (fs : FS) (line : Str) : FS :=
  if line.head? = some '#' then fs else
  let f := line            -- `line.rstrip('\n')`: log lines are kept without their terminator
  if f = [] then fs else
  let k := keyOf cwd f
  if k = [] then fs else
  match fs.get k with
  | some (.dir _) => if fs.hasChildren k then fs else fs.del k
  | some _ => fs.del k
  | none => fs

/-- `do_uninstall`: replay the log -/
def uninstall (cwd : Str) (log : List Str) (fs : FS) : FS := log.foldl (uninstallLine cwd) fs

end MesonModel.Install
