/-
Helper lemmas for C11: keys of `join`, `dirname`, `basename` (string level).
-/
import MesonModel.Install.ConfineLemmas

namespace MesonModel.Install

theorem keyStep_nil (acc : Key) : keyStep acc [] = acc := by simp [keyStep]

/-- key of a joined path: continue the fold over the components of the relative part -/
theorem keyOfAbs_join (a b : Str) (hb : isAbs b = false) :
    keyOfAbs (join a b) = (splitOn '/' b).foldl keyStep (keyOfAbs a) := by
  obtain ⟨pre, h | ⟨h1, h2⟩⟩ := splitOn_join a b hb
  · unfold keyOfAbs; rw [h.2, h.1]; simp [splitOn, keyStep_nil]
  · unfold keyOfAbs
    rw [h1, List.foldl_append]
    rcases h2 with h2 | h2 <;> rw [h2]
    simp [List.foldl_append, keyStep_nil]

theorem prefix_keyOfAbs_join (a b : Str) (hb : isAbs b = false) (hnd : NoDotDot b) :
    keyOfAbs a <+: keyOfAbs (join a b) := by
  rw [keyOfAbs_join a b hb, foldl_keyStep_noDD _ _ hnd]
  exact List.prefix_append _ _

theorem noDotDot_single (n : Str) (h1 : '/' ∉ n) (h2 : n ≠ dotdot) : NoDotDot n := by
  unfold NoDotDot
  rw [splitOn_noSep '/' n h1]
  simpa using fun e => h2 e.symm

theorem isAbs_false_of_noSep (n : Str) (h : '/' ∉ n) : isAbs n = false := by
  unfold isAbs
  split
  · simp at h
  · rfl

/-! ### `basename`, `dirname` -/

theorem mem_takeWhile_imp' {α} (q : α → Bool) : ∀ (l : List α) (x : α), x ∈ l.takeWhile q → q x = true
  | [], _, h => by simp at h
  | y :: l, x, h => by
    by_cases hy : q y = true
    · rw [List.takeWhile_cons_of_pos hy] at h
      rcases List.mem_cons.mp h with e | e
      · rw [e]; exact hy
      · exact mem_takeWhile_imp' q l x e
    · rw [List.takeWhile_cons_of_neg hy] at h; simp at h

theorem dropWhile_eq_nil' {α} (q : α → Bool) : ∀ (l : List α), l.dropWhile q = [] → ∀ x ∈ l, q x = true
  | [], _, _, h => by simp at h
  | y :: l, h, x, hx => by
    by_cases hy : q y = true
    · rw [List.dropWhile_cons_of_pos hy] at h
      rcases List.mem_cons.mp hx with e | e
      · rw [e]; exact hy
      · exact dropWhile_eq_nil' q l h x e
    · rw [List.dropWhile_cons_of_neg hy] at h; simp at h

theorem takeWhile_all {α} (q : α → Bool) : ∀ (l : List α), (∀ y ∈ l, q y = true) → l.takeWhile q = l
  | [], _ => rfl
  | y :: l, h => by
    rw [List.takeWhile_cons_of_pos (h y (by simp)), takeWhile_all q l (fun z hz => h z (by simp [hz]))]

theorem headRaw_append_basename (p : Str) : headRaw p ++ basename p = p := by
  unfold headRaw basename
  rw [← List.reverse_append, List.takeWhile_append_dropWhile, List.reverse_reverse]

theorem basename_noSep (p : Str) : '/' ∉ basename p := by
  unfold basename
  intro h
  have := mem_takeWhile_imp' _ _ _ (List.mem_reverse.mp h)
  simp at this

theorem dropWhile_head {α} (q : α → Bool) : ∀ (l : List α) (x : α) (t : List α), l.dropWhile q = x :: t → q x = false
  | [], _, _, h => by simp at h
  | y :: l, x, t, h => by
    by_cases hy : q y = true
    · rw [List.dropWhile_cons_of_pos hy] at h; exact dropWhile_head q l x t h
    · rw [List.dropWhile_cons_of_neg hy] at h
      simp only [List.cons.injEq] at h
      rw [← h.1]; simpa using hy

theorem headRaw_cases (p : Str) : headRaw p = [] ∨ ∃ h, headRaw p = h ++ ['/'] := by
  unfold headRaw
  cases hl : p.reverse.dropWhile (· ≠ '/') with
  | nil => left; rfl
  | cons x t =>
    right
    have := dropWhile_head _ _ _ _ hl
    simp at this
    subst this
    exact ⟨t.reverse, by simp⟩

theorem keyOfAbs_append_slash (y : Str) : keyOfAbs (y ++ ['/']) = keyOfAbs y := by
  unfold keyOfAbs
  rw [splitOn_append_sep '/' y [], List.foldl_append]
  simp [splitOn, keyStep_nil]

theorem keyOfAbs_append_slashes (y : Str) (n : Nat) : keyOfAbs (y ++ List.replicate n '/') = keyOfAbs y := by
  induction n with
  | zero => simp
  | succ n ih =>
    rw [List.replicate_succ', ← List.append_assoc, keyOfAbs_append_slash, ih]

theorem rstripSlash_spec (x : Str) : ∃ n, x = rstripSlash x ++ List.replicate n '/' := by
  unfold rstripSlash
  refine ⟨(x.reverse.takeWhile (· = '/')).length, ?_⟩
  have h1 : x.reverse.takeWhile (fun c => decide (c = '/')) =
      List.replicate (x.reverse.takeWhile (fun c => decide (c = '/'))).length '/' := by
    rw [List.eq_replicate_iff]
    refine ⟨rfl, ?_⟩
    intro c hc
    have := mem_takeWhile_imp' _ _ _ hc
    simpa using this
  have h2 : x = (x.reverse.dropWhile (· = '/')).reverse ++ (x.reverse.takeWhile (· = '/')).reverse := by
    rw [← List.reverse_append, List.takeWhile_append_dropWhile, List.reverse_reverse]
  conv => lhs; rw [h2]
  rw [h1]
  simp

theorem keyOfAbs_rstripSlash (x : Str) : keyOfAbs (rstripSlash x) = keyOfAbs x := by
  obtain ⟨n, h⟩ := rstripSlash_spec x
  conv => rhs; rw [h]
  rw [keyOfAbs_append_slashes]

theorem keyOfAbs_dirname_eq (p : Str) : keyOfAbs (dirname p) = keyOfAbs (headRaw p) := by
  unfold dirname
  simp only []
  split
  · exact keyOfAbs_rstripSlash _
  · rfl

/-- a path with a slash: its key is one `keyStep` (by the basename) after the key of its dirname -/
theorem keyOfAbs_eq_step_dirname (p : Str) (h : headRaw p ≠ []) :
    keyOfAbs p = keyStep (keyOfAbs (dirname p)) (basename p) := by
  rcases headRaw_cases p with h0 | ⟨hd, hh⟩
  · exact absurd h0 h
  · rw [keyOfAbs_dirname_eq, hh, keyOfAbs_append_slash]
    have hp : p = hd ++ '/' :: basename p := by
      have := headRaw_append_basename p
      rw [hh] at this
      simpa using this.symm
    conv => lhs; rw [hp]
    unfold keyOfAbs
    rw [splitOn_append_sep, splitOn_noSep '/' _ (basename_noSep p), List.foldl_append]
    rfl

theorem headRaw_ne_nil_of_isAbs (p : Str) (h : isAbs p = true) : headRaw p ≠ [] := by
  obtain ⟨t, rfl⟩ := isAbs_elim p h
  unfold headRaw
  intro e
  have e' := List.reverse_eq_nil_iff.mp e
  have := dropWhile_eq_nil' _ _ e' '/' (by simp)
  simp at this

theorem isAbs_dirname (p : Str) (h : isAbs p = true) : isAbs (dirname p) = true := by
  obtain ⟨t, rfl⟩ := isAbs_elim p h
  have hne := headRaw_ne_nil_of_isAbs _ h
  have hsplit := headRaw_append_basename ('/' :: t)
  -- headRaw starts with '/'
  have hhead : ∃ r, headRaw ('/' :: t) = '/' :: r := by
    cases hh : headRaw ('/' :: t) with
    | nil => exact absurd hh hne
    | cons x r =>
      rw [hh] at hsplit
      simp only [List.cons_append, List.cons.injEq] at hsplit
      exact ⟨r, by rw [hsplit.1]⟩
  obtain ⟨r, hr⟩ := hhead
  unfold dirname
  simp only []
  split
  · rename_i hc
    obtain ⟨n, hn⟩ := rstripSlash_spec (headRaw ('/' :: t))
    cases hrs : rstripSlash (headRaw ('/' :: t)) with
    | nil =>
      rw [hrs] at hn
      simp only [List.nil_append] at hn
      obtain ⟨x, hx, hxne⟩ : ∃ x, x ∈ headRaw ('/' :: t) ∧ x ≠ '/' := by
        have hc' := hc
        simp only [Bool.and_eq_true, List.any_eq_true, decide_eq_true_eq] at hc'
        exact hc'.2
      rw [hn] at hx
      exact absurd (List.eq_of_mem_replicate hx) hxne
    | cons x r' =>
      rw [hrs, hr] at hn
      simp only [List.cons_append, List.cons.injEq] at hn
      rw [← hn.1]; rfl
  · rw [hr]; rfl

theorem takeWhile_append_stop {α} (q : α → Bool) (l : List α) (x : α) (r : List α)
    (hl : ∀ y ∈ l, q y = true) (hx : q x = false) : (l ++ x :: r).takeWhile q = l := by
  induction l with
  | nil => simp [List.takeWhile, hx]
  | cons y t ih =>
    simp only [List.cons_append]
    rw [List.takeWhile_cons_of_pos (hl y (by simp))]
    rw [ih (fun z hz => hl z (by simp [hz]))]

theorem basename_append_sep (x n : Str) (h : '/' ∉ n) : basename (x ++ '/' :: n) = n := by
  unfold basename
  have : (x ++ '/' :: n).reverse = n.reverse ++ '/' :: x.reverse := by simp
  rw [this, takeWhile_append_stop _ _ _ _ (by
    intro y hy
    have : y ≠ '/' := fun e => h (e ▸ List.mem_reverse.mp hy)
    simpa using this) (by simp)]
  simp

theorem basename_noSep_self (n : Str) (h : '/' ∉ n) : basename n = n := by
  unfold basename
  rw [takeWhile_all]
  · simp
  · intro y hy
    have : y ≠ '/' := fun e => h (e ▸ List.mem_reverse.mp hy)
    simpa using this

theorem basename_join (a n : Str) (h : '/' ∉ n) : basename (join a n) = n := by
  unfold join
  simp only [isAbs_false_of_noSep n h, Bool.false_eq_true, if_false]
  split
  · rename_i hc
    by_cases ha : a = []
    · subst ha; simpa using basename_noSep_self n h
    · have he : endsWithSlash a = true := by simpa [ha] using hc
      obtain ⟨a', rfl⟩ := endsWithSlash_elim a he
      rw [List.append_assoc]
      exact basename_append_sep a' n h
  · exact basename_append_sep a n h

end MesonModel.Install
