/-
Helper lemmas for C11: plans made of file rules (headers, man pages, data) with pairwise different
destinations — exactness and idempotence of the whole installation.
-/
import MesonModel.Install.RuleLemmas

namespace MesonModel.Install

/-- file rules only: file targets, headers, man pages and data (no subdirectories, empty directories, symlinks) -/
def FilesOnly (p : Plan) : Prop := p.subdirs = [] ∧ p.emptydirs = [] ∧ p.symlinks = []

/-- destination keys of the selected rules, in installation order: targets, headers, man pages, data -/
def plannedKeys (cfg : Cfg) (p : Plan) : List Key :=
  (p.targets.filter (selTarget cfg)).map (targetKey cfg) ++
  ((p.headers.filter (selData cfg)).map (headerKey cfg) ++
  ((p.man.filter (selData cfg)).map (dataKey cfg) ++ (p.data.filter (selData cfg)).map (dataKey cfg)))

theorem pairwise_of_nodup {α} (sel : α → Bool) (key : α → Key) (l : List α)
    (h : ((l.filter sel).map key).Nodup) : l.Pairwise (fun a b => sel a = true → sel b = true → key a ≠ key b) := by
  induction l with
  | nil => exact List.Pairwise.nil
  | cons a t ih =>
    by_cases ha : sel a = true
    · rw [List.filter_cons_of_pos ha, List.map_cons, List.nodup_cons] at h
      refine List.Pairwise.cons ?_ (ih h.2)
      intro b hb _ hsb e
      exact h.1 (List.mem_map.mpr ⟨b, List.mem_filter.mpr ⟨hb, hsb⟩, e.symm⟩)
    · rw [List.filter_cons_of_neg ha] at h
      refine List.Pairwise.cons ?_ (ih h)
      intro b _ hsa; exact absurd hsa ha

theorem frame_trans {a b c : Option Node} {m : Nat} (h1 : b = a ∨ (a = none ∧ b = some (.dir m)))
    (h2 : c = b ∨ (b = none ∧ c = some (.dir m))) : c = a ∨ (a = none ∧ c = some (.dir m)) := by
  rcases h2 with e2 | ⟨e2, e2'⟩
  · rcases h1 with e1 | ⟨e1, e1'⟩
    · exact Or.inl (by rw [e2, e1])
    · exact Or.inr ⟨e1, by rw [e2, e1']⟩
  · rcases h1 with e1 | ⟨_, e1'⟩
    · exact Or.inr ⟨by rw [← e1, e2], e2'⟩
    · rw [e1'] at e2; cases e2

section
variable {D : Key} (cfg : Cfg) (hdry : cfg.dryRun = false) (honly : cfg.onlyChanged = false) (hD : D ≠ [])
  (hdest : Dest cfg D)

theorem keep_node {a b : Option Node} {n : Node} {m : Nat} (ha : a = some n)
    (hb : b = a ∨ (a = none ∧ b = some (.dir m))) : b = some n := by
  rcases hb with e | ⟨e, _⟩
  · rw [e, ha]
  · rw [ha] at e; cases e

include hdry honly hD hdest in
/-- the four folds of a files-only plan did not raise if the last did not -/
theorem filesBody_phases (p : Plan) (hfo : FilesOnly p) (s : St) (hf : (installBody cfg p s).failed = false) :
    installBody cfg p s = p.data.foldl (installDataOne cfg) (p.man.foldl (installMan cfg)
      (p.headers.foldl (installHeader cfg) (p.targets.foldl (installTarget cfg) s))) ∧
    (p.targets.foldl (installTarget cfg) s).failed = false ∧
    (p.headers.foldl (installHeader cfg) (p.targets.foldl (installTarget cfg) s)).failed = false ∧
    (p.man.foldl (installMan cfg) (p.headers.foldl (installHeader cfg) (p.targets.foldl (installTarget cfg) s))).failed = false := by
  obtain ⟨h1, h3, h4⟩ := hfo
  have hbody : installBody cfg p s = p.data.foldl (installDataOne cfg) (p.man.foldl (installMan cfg)
      (p.headers.foldl (installHeader cfg) (p.targets.foldl (installTarget cfg) s))) := by
    unfold installBody; simp only [h1, h3, h4, List.foldl_nil]
  rw [hbody] at hf
  have RH := ruleSpec_header cfg hdry honly hD hdest
  have RM := ruleSpec_man cfg hdry honly hD hdest
  have RD := ruleSpec_data cfg hdry honly hD hdest
  have hf3 : (p.man.foldl (installMan cfg) (p.headers.foldl (installHeader cfg) (p.targets.foldl (installTarget cfg) s))).failed = false := by
    by_cases e : (p.man.foldl (installMan cfg) (p.headers.foldl (installHeader cfg) (p.targets.foldl (installTarget cfg) s))).failed = true
    · rw [foldl_failed_sticky RD _ _ e] at hf; rw [hf] at e; cases e
    · simpa using e
  have hf2 : (p.headers.foldl (installHeader cfg) (p.targets.foldl (installTarget cfg) s)).failed = false := by
    by_cases e : (p.headers.foldl (installHeader cfg) (p.targets.foldl (installTarget cfg) s)).failed = true
    · rw [foldl_failed_sticky RM _ _ e] at hf3; rw [hf3] at e; cases e
    · simpa using e
  have hf1 : (p.targets.foldl (installTarget cfg) s).failed = false := by
    by_cases e : (p.targets.foldl (installTarget cfg) s).failed = true
    · rw [foldl_failed_sticky RH _ _ e] at hf2; rw [hf2] at e; cases e
    · simpa using e
  exact ⟨hbody, hf1, hf2, hf3⟩

include hdry honly hD hdest in
/-- overlapping destinations: within a list the later rule wins; across lists the order is targets, headers,
man pages, data -/
theorem filesBody_last_wins (p : Plan) (hfo : FilesOnly p)
    (hokT : ∀ t ∈ p.targets, okTarget t)
    (hokH : ∀ e ∈ p.headers, okData e) (hokM : ∀ e ∈ p.man, okData e) (hokD : ∀ e ∈ p.data, okData e)
    (s : St) (hNL : NL s.fs) (hf : (installBody cfg p s).failed = false) :
    NL (installBody cfg p s).fs ∧
    (∀ pre t post, p.targets = pre ++ t :: post → selTarget cfg t = true →
      (∀ t' ∈ post, selTarget cfg t' = true → targetKey cfg t' ≠ targetKey cfg t) →
      (∀ e ∈ p.headers, selData cfg e = true → headerKey cfg e ≠ targetKey cfg t) →
      (∀ e ∈ p.man, selData cfg e = true → dataKey cfg e ≠ targetKey cfg t) →
      (∀ e ∈ p.data, selData cfg e = true → dataKey cfg e ≠ targetKey cfg t) →
      (installBody cfg p s).fs.get (targetKey cfg t) = some (targetNode cfg t)) ∧
    (∀ pre e post, p.headers = pre ++ e :: post → selData cfg e = true →
      (∀ e' ∈ post, selData cfg e' = true → headerKey cfg e' ≠ headerKey cfg e) →
      (∀ e' ∈ p.man, selData cfg e' = true → dataKey cfg e' ≠ headerKey cfg e) →
      (∀ e' ∈ p.data, selData cfg e' = true → dataKey cfg e' ≠ headerKey cfg e) →
      (installBody cfg p s).fs.get (headerKey cfg e) = some (fileNode cfg e)) ∧
    (∀ pre e post, p.man = pre ++ e :: post → selData cfg e = true →
      (∀ e' ∈ post, selData cfg e' = true → dataKey cfg e' ≠ dataKey cfg e) →
      (∀ e' ∈ p.data, selData cfg e' = true → dataKey cfg e' ≠ dataKey cfg e) →
      (installBody cfg p s).fs.get (dataKey cfg e) = some (fileNode cfg e)) ∧
    (∀ pre e post, p.data = pre ++ e :: post → selData cfg e = true →
      (∀ e' ∈ post, selData cfg e' = true → dataKey cfg e' ≠ dataKey cfg e) →
      (installBody cfg p s).fs.get (dataKey cfg e) = some (fileNode cfg e)) ∧
    (∀ k, k ∉ plannedKeys cfg p → (installBody cfg p s).fs.get k = s.fs.get k ∨
      (s.fs.get k = none ∧ (installBody cfg p s).fs.get k = some (.dir (andNot 0o777 cfg.procUmask)))) := by
  obtain ⟨hbody, hf1, hf2, hf3⟩ := filesBody_phases cfg hdry honly hD hdest p hfo s hf
  rw [hbody] at hf ⊢
  have RT := ruleSpec_target cfg hdry honly hD hdest
  have RH := ruleSpec_header cfg hdry honly hD hdest
  have RM := ruleSpec_man cfg hdry honly hD hdest
  have RD := ruleSpec_data cfg hdry honly hD hdest
  obtain ⟨n1, g1, fr1⟩ := fold_rules_last_wins RT p.targets hokT s hNL hf1
  obtain ⟨n2, g2, fr2⟩ := fold_rules_last_wins RH p.headers hokH _ n1 hf2
  obtain ⟨n3, g3, fr3⟩ := fold_rules_last_wins RM p.man hokM _ n2 hf3
  obtain ⟨n4, g4, fr4⟩ := fold_rules_last_wins RD p.data hokD _ n3 hf
  refine ⟨n4, ?_, ?_, ?_, g4, ?_⟩
  · intro pre t post hl hs hlater hH hM hDd
    exact keep_node (keep_node (keep_node (g1 pre t post hl hs hlater) (fr2 _ hH)) (fr3 _ hM)) (fr4 _ hDd)
  · intro pre e post hl hs hlater hM hDd
    exact keep_node (keep_node (g2 pre e post hl hs hlater) (fr3 _ hM)) (fr4 _ hDd)
  · intro pre e post hl hs hlater hDd
    exact keep_node (g3 pre e post hl hs hlater) (fr4 _ hDd)
  · intro k hk
    unfold plannedKeys at hk
    simp only [List.mem_append, List.mem_map, List.mem_filter, not_or, not_exists, not_and] at hk
    have kT : ∀ e ∈ p.targets, selTarget cfg e = true → targetKey cfg e ≠ k := fun e he hs eq => hk.1 e ⟨he, hs⟩ eq
    have kH : ∀ e ∈ p.headers, selData cfg e = true → headerKey cfg e ≠ k := fun e he hs eq => hk.2.1 e ⟨he, hs⟩ eq
    have kM : ∀ e ∈ p.man, selData cfg e = true → dataKey cfg e ≠ k := fun e he hs eq => hk.2.2.1 e ⟨he, hs⟩ eq
    have kD : ∀ e ∈ p.data, selData cfg e = true → dataKey cfg e ≠ k := fun e he hs eq => hk.2.2.2 e ⟨he, hs⟩ eq
    exact frame_trans (frame_trans (frame_trans (fr1 k kT) (fr2 k kH)) (fr3 k kM)) (fr4 k kD)

include hdry honly hD hdest in
/-- pairwise different destinations: every selected rule's destination holds its node -/
theorem filesBody_exact (p : Plan) (hfo : FilesOnly p)
    (hokT : ∀ t ∈ p.targets, okTarget t)
    (hokH : ∀ e ∈ p.headers, okData e) (hokM : ∀ e ∈ p.man, okData e) (hokD : ∀ e ∈ p.data, okData e)
    (hnd : (plannedKeys cfg p).Nodup) (s : St) (hNL : NL s.fs) (hf : (installBody cfg p s).failed = false) :
    NL (installBody cfg p s).fs ∧
    (∀ t ∈ p.targets, selTarget cfg t = true → (installBody cfg p s).fs.get (targetKey cfg t) = some (targetNode cfg t)) ∧
    (∀ e ∈ p.headers, selData cfg e = true → (installBody cfg p s).fs.get (headerKey cfg e) = some (fileNode cfg e)) ∧
    (∀ e ∈ p.man, selData cfg e = true → (installBody cfg p s).fs.get (dataKey cfg e) = some (fileNode cfg e)) ∧
    (∀ e ∈ p.data, selData cfg e = true → (installBody cfg p s).fs.get (dataKey cfg e) = some (fileNode cfg e)) ∧
    (∀ k, k ∉ plannedKeys cfg p → (installBody cfg p s).fs.get k = s.fs.get k ∨
      (s.fs.get k = none ∧ (installBody cfg p s).fs.get k = some (.dir (andNot 0o777 cfg.procUmask)))) := by
  obtain ⟨hbody, hf1, hf2, hf3⟩ := filesBody_phases cfg hdry honly hD hdest p hfo s hf
  rw [hbody] at hf ⊢
  have RT := ruleSpec_target cfg hdry honly hD hdest
  have RH := ruleSpec_header cfg hdry honly hD hdest
  have RM := ruleSpec_man cfg hdry honly hD hdest
  have RD := ruleSpec_data cfg hdry honly hD hdest
  unfold plannedKeys at hnd
  have hndT := (List.nodup_append.mp hnd).1
  have hnd2 := (List.nodup_append.mp hnd).2.1
  have hdisjT := (List.nodup_append.mp hnd).2.2
  have hndH := (List.nodup_append.mp hnd2).1
  have hnd3 := (List.nodup_append.mp hnd2).2.1
  have hdisjH := (List.nodup_append.mp hnd2).2.2
  have hndM := (List.nodup_append.mp hnd3).1
  have hndD := (List.nodup_append.mp hnd3).2.1
  have hdisjM := (List.nodup_append.mp hnd3).2.2
  obtain ⟨n1, g1, fr1⟩ := fold_rules_exact RT p.targets hokT (pairwise_of_nodup _ _ _ hndT) s hNL hf1
  obtain ⟨n2, g2, fr2⟩ := fold_rules_exact RH p.headers hokH (pairwise_of_nodup _ _ _ hndH) _ n1 hf2
  obtain ⟨n3, g3, fr3⟩ := fold_rules_exact RM p.man hokM (pairwise_of_nodup _ _ _ hndM) _ n2 hf3
  obtain ⟨n4, g4, fr4⟩ := fold_rules_exact RD p.data hokD (pairwise_of_nodup _ _ _ hndD) _ n3 hf
  have memT : ∀ e ∈ p.targets, selTarget cfg e = true → targetKey cfg e ∈ (p.targets.filter (selTarget cfg)).map (targetKey cfg) :=
    fun e he hs => List.mem_map.mpr ⟨e, List.mem_filter.mpr ⟨he, hs⟩, rfl⟩
  have memH : ∀ e ∈ p.headers, selData cfg e = true → headerKey cfg e ∈ (p.headers.filter (selData cfg)).map (headerKey cfg) :=
    fun e he hs => List.mem_map.mpr ⟨e, List.mem_filter.mpr ⟨he, hs⟩, rfl⟩
  have memM : ∀ e ∈ p.man, selData cfg e = true → dataKey cfg e ∈ (p.man.filter (selData cfg)).map (dataKey cfg) :=
    fun e he hs => List.mem_map.mpr ⟨e, List.mem_filter.mpr ⟨he, hs⟩, rfl⟩
  have memD : ∀ e ∈ p.data, selData cfg e = true → dataKey cfg e ∈ (p.data.filter (selData cfg)).map (dataKey cfg) :=
    fun e he hs => List.mem_map.mpr ⟨e, List.mem_filter.mpr ⟨he, hs⟩, rfl⟩
  refine ⟨n4, ?_, ?_, ?_, g4, ?_⟩
  · intro t ht hs
    have hk := memT t ht hs
    have a2 := keep_node (g1 t ht hs) (fr2 _ (fun e' he' hs' eq =>
      hdisjT _ hk _ (List.mem_append.mpr (Or.inl (memH e' he' hs'))) eq.symm))
    have a3 := keep_node a2 (fr3 _ (fun e' he' hs' eq =>
      hdisjT _ hk _ (List.mem_append.mpr (Or.inr (List.mem_append.mpr (Or.inl (memM e' he' hs'))))) eq.symm))
    exact keep_node a3 (fr4 _ (fun e' he' hs' eq =>
      hdisjT _ hk _ (List.mem_append.mpr (Or.inr (List.mem_append.mpr (Or.inr (memD e' he' hs'))))) eq.symm))
  · intro e he hs
    have hk := memH e he hs
    have a3 := keep_node (g2 e he hs) (fr3 _ (fun e' he' hs' eq =>
      hdisjH _ hk _ (List.mem_append.mpr (Or.inl (memM e' he' hs'))) eq.symm))
    exact keep_node a3 (fr4 _ (fun e' he' hs' eq =>
      hdisjH _ hk _ (List.mem_append.mpr (Or.inr (memD e' he' hs'))) eq.symm))
  · intro e he hs
    have hk := memM e he hs
    exact keep_node (g3 e he hs) (fr4 _ (fun e' he' hs' eq => hdisjM _ hk _ (memD e' he' hs') eq.symm))
  · intro k hk
    unfold plannedKeys at hk
    simp only [List.mem_append, List.mem_map, List.mem_filter, not_or, not_exists, not_and] at hk
    have kT : ∀ e ∈ p.targets, selTarget cfg e = true → targetKey cfg e ≠ k := fun e he hs eq => hk.1 e ⟨he, hs⟩ eq
    have kH : ∀ e ∈ p.headers, selData cfg e = true → headerKey cfg e ≠ k := fun e he hs eq => hk.2.1 e ⟨he, hs⟩ eq
    have kM : ∀ e ∈ p.man, selData cfg e = true → dataKey cfg e ≠ k := fun e he hs eq => hk.2.2.1 e ⟨he, hs⟩ eq
    have kD : ∀ e ∈ p.data, selData cfg e = true → dataKey cfg e ≠ k := fun e he hs eq => hk.2.2.2 e ⟨he, hs⟩ eq
    exact frame_trans (frame_trans (frame_trans (fr1 k kT) (fr2 k kH)) (fr3 k kM)) (fr4 k kD)

include hdry honly hD hdest in
/-- when every selected rule's destination already holds its node, the body changes nothing -/
theorem filesBody_fixed (p : Plan) (hfo : FilesOnly p)
    (hokT : ∀ t ∈ p.targets, okTarget t)
    (hokH : ∀ e ∈ p.headers, okData e) (hokM : ∀ e ∈ p.man, okData e) (hokD : ∀ e ∈ p.data, okData e)
    (s : St) (hNL : NL s.fs)
    (hT : ∀ t ∈ p.targets, selTarget cfg t = true → s.fs.get (targetKey cfg t) = some (targetNode cfg t))
    (hH : ∀ e ∈ p.headers, selData cfg e = true → s.fs.get (headerKey cfg e) = some (fileNode cfg e))
    (hM : ∀ e ∈ p.man, selData cfg e = true → s.fs.get (dataKey cfg e) = some (fileNode cfg e))
    (hDd : ∀ e ∈ p.data, selData cfg e = true → s.fs.get (dataKey cfg e) = some (fileNode cfg e))
    (hf : (installBody cfg p s).failed = false) :
    ∀ k, (installBody cfg p s).fs.get k = s.fs.get k := by
  obtain ⟨hbody, hf1, hf2, hf3⟩ := filesBody_phases cfg hdry honly hD hdest p hfo s hf
  rw [hbody] at hf ⊢
  have RT := ruleSpec_target cfg hdry honly hD hdest
  have RH := ruleSpec_header cfg hdry honly hD hdest
  have RM := ruleSpec_man cfg hdry honly hD hdest
  have RD := ruleSpec_data cfg hdry honly hD hdest
  obtain ⟨n1, e1⟩ := fold_rules_fixed RT p.targets hokT s hNL hT hf1
  obtain ⟨n2, e2⟩ := fold_rules_fixed RH p.headers hokH _ n1 (fun e he hs => by rw [e1]; exact hH e he hs) hf2
  obtain ⟨n3, e3⟩ := fold_rules_fixed RM p.man hokM _ n2 (fun e he hs => by rw [e2, e1]; exact hM e he hs) hf3
  obtain ⟨_, e4⟩ := fold_rules_fixed RD p.data hokD _ n3 (fun e he hs => by rw [e3, e2, e1]; exact hDd e he hs) hf
  intro k
  rw [e4, e3, e2, e1]

end

end MesonModel.Install
