/-
Helper lemmas for C11: plans made of file rules (headers, man pages, data) with pairwise different
destinations — exactness and idempotence of the whole installation.
-/
import MesonModel.Install.RuleLemmas

namespace MesonModel.Install

/-- only headers, man pages and data (no subdirectories, targets, empty directories or symlinks) -/
def FilesOnly (p : Plan) : Prop := p.subdirs = [] ∧ p.targets = [] ∧ p.emptydirs = [] ∧ p.symlinks = []

/-- destination keys of the selected rules, in installation order -/
def plannedKeys (cfg : Cfg) (p : Plan) : List Key :=
  (p.headers.filter (selData cfg)).map (headerKey cfg) ++
  ((p.man.filter (selData cfg)).map (dataKey cfg) ++ (p.data.filter (selData cfg)).map (dataKey cfg))

theorem pairwise_of_nodup {α} (sel : α → Bool) (key : α → Key) (l : List α)
    (h : ((l.filter sel).map key).Nodup) : l.Pairwise (fun a b => sel a = true → sel b = true → key a ≠ key b) := by
  induction l with
  | nil => exact List.Pairwise.nil
  | cons a t ih =>
    by_cases ha : sel a = true
    · rw [List.filter_cons_of_pos ha, List.map_cons, List.nodup_cons] at h
      refine List.Pairwise.cons ?_ (ih h.2)
      intro b hb _ hsb e
      exact h.1 (List.mem_map.mpr ⟨b, List.mem_filter.mpr ⟨hb, hsb⟩, e.symm⟩)
    · rw [List.filter_cons_of_neg ha] at h
      refine List.Pairwise.cons ?_ (ih h)
      intro b _ hsa; exact absurd hsa ha

theorem frame_trans {a b c : Option Node} {m : Nat} (h1 : b = a ∨ (a = none ∧ b = some (.dir m)))
    (h2 : c = b ∨ (b = none ∧ c = some (.dir m))) : c = a ∨ (a = none ∧ c = some (.dir m)) := by
  rcases h2 with e2 | ⟨e2, e2'⟩
  · rcases h1 with e1 | ⟨e1, e1'⟩
    · exact Or.inl (by rw [e2, e1])
    · exact Or.inr ⟨e1, by rw [e2, e1']⟩
  · rcases h1 with e1 | ⟨_, e1'⟩
    · exact Or.inr ⟨by rw [← e1, e2], e2'⟩
    · rw [e1'] at e2; cases e2

section
variable {D : Key} (cfg : Cfg) (hdry : cfg.dryRun = false) (honly : cfg.onlyChanged = false) (hD : D ≠ [])
  (hdest : Dest cfg D)

include hdry honly hD hdest in
/-- the three folds of a files-only plan, with pairwise different destinations -/
theorem filesBody_exact (p : Plan) (hfo : FilesOnly p)
    (hokH : ∀ e ∈ p.headers, okData e) (hokM : ∀ e ∈ p.man, okData e) (hokD : ∀ e ∈ p.data, okData e)
    (hnd : (plannedKeys cfg p).Nodup) (s : St) (hNL : NL s.fs) (hf : (installBody cfg p s).failed = false) :
    NL (installBody cfg p s).fs ∧
    (∀ e ∈ p.headers, selData cfg e = true → (installBody cfg p s).fs.get (headerKey cfg e) = some (fileNode cfg e)) ∧
    (∀ e ∈ p.man, selData cfg e = true → (installBody cfg p s).fs.get (dataKey cfg e) = some (fileNode cfg e)) ∧
    (∀ e ∈ p.data, selData cfg e = true → (installBody cfg p s).fs.get (dataKey cfg e) = some (fileNode cfg e)) ∧
    (∀ k, k ∉ plannedKeys cfg p → (installBody cfg p s).fs.get k = s.fs.get k ∨
      (s.fs.get k = none ∧ (installBody cfg p s).fs.get k = some (.dir (andNot 0o777 cfg.procUmask)))) := by
  obtain ⟨h1, h2, h3, h4⟩ := hfo
  unfold installBody at hf ⊢
  simp only [h1, h2, h3, h4, List.foldl_nil] at hf ⊢
  have RH := ruleSpec_header cfg hdry honly hD hdest
  have RM := ruleSpec_man cfg hdry honly hD hdest
  have RD := ruleSpec_data cfg hdry honly hD hdest
  -- the three intermediate states did not raise
  have hf2 : ((p.man.foldl (installMan cfg) (p.headers.foldl (installHeader cfg) s))).failed = false := by
    by_cases e : (p.man.foldl (installMan cfg) (p.headers.foldl (installHeader cfg) s)).failed = true
    · rw [foldl_failed_sticky RD _ _ e] at hf; rw [hf] at e; cases e
    · simpa using e
  have hf1 : (p.headers.foldl (installHeader cfg) s).failed = false := by
    by_cases e : (p.headers.foldl (installHeader cfg) s).failed = true
    · rw [foldl_failed_sticky RM _ _ e] at hf2; rw [hf2] at e; cases e
    · simpa using e
  unfold plannedKeys at hnd
  have hndH := (List.nodup_append.mp hnd).1
  have hndMD := (List.nodup_append.mp hnd).2.1
  have hdisjH := (List.nodup_append.mp hnd).2.2
  have hndM := (List.nodup_append.mp hndMD).1
  have hndD := (List.nodup_append.mp hndMD).2.1
  have hdisjM := (List.nodup_append.mp hndMD).2.2
  obtain ⟨n1, g1, fr1⟩ := fold_rules_exact RH p.headers hokH (pairwise_of_nodup _ _ _ hndH) s hNL hf1
  obtain ⟨n2, g2, fr2⟩ := fold_rules_exact RM p.man hokM (pairwise_of_nodup _ _ _ hndM) _ n1 hf2
  obtain ⟨n3, g3, fr3⟩ := fold_rules_exact RD p.data hokD (pairwise_of_nodup _ _ _ hndD) _ n2 hf
  -- membership helpers
  have memH : ∀ e ∈ p.headers, selData cfg e = true → headerKey cfg e ∈ (p.headers.filter (selData cfg)).map (headerKey cfg) :=
    fun e he hs => List.mem_map.mpr ⟨e, List.mem_filter.mpr ⟨he, hs⟩, rfl⟩
  have memM : ∀ e ∈ p.man, selData cfg e = true → dataKey cfg e ∈ (p.man.filter (selData cfg)).map (dataKey cfg) :=
    fun e he hs => List.mem_map.mpr ⟨e, List.mem_filter.mpr ⟨he, hs⟩, rfl⟩
  have memD : ∀ e ∈ p.data, selData cfg e = true → dataKey cfg e ∈ (p.data.filter (selData cfg)).map (dataKey cfg) :=
    fun e he hs => List.mem_map.mpr ⟨e, List.mem_filter.mpr ⟨he, hs⟩, rfl⟩
  -- a node that is there is kept by a later fold that does not aim at its key
  have keep : ∀ {a b : Option Node} {n : Node} {m : Nat}, a = some n → (b = a ∨ (a = none ∧ b = some (.dir m))) → b = some n := by
    intro a b n m ha hb
    rcases hb with e | ⟨e, _⟩
    · rw [e, ha]
    · rw [ha] at e; cases e
  refine ⟨n3, ?_, ?_, g3, ?_⟩
  · intro e he hs
    have hk := memH e he hs
    have a2 := keep (g1 e he hs) (fr2 _ (fun e' he' hs' eq => hdisjH _ hk _ (List.mem_append.mpr (Or.inl (memM e' he' hs'))) eq.symm))
    exact keep a2 (fr3 _ (fun e' he' hs' eq => hdisjH _ hk _ (List.mem_append.mpr (Or.inr (memD e' he' hs'))) eq.symm))
  · intro e he hs
    have hk := memM e he hs
    exact keep (g2 e he hs) (fr3 _ (fun e' he' hs' eq => hdisjM _ hk _ (memD e' he' hs') eq.symm))
  · intro k hk
    have kH : ∀ e ∈ p.headers, selData cfg e = true → headerKey cfg e ≠ k :=
      fun e he hs eq => hk (List.mem_append.mpr (Or.inl (eq ▸ memH e he hs)))
    have kM : ∀ e ∈ p.man, selData cfg e = true → dataKey cfg e ≠ k :=
      fun e he hs eq => hk (List.mem_append.mpr (Or.inr (List.mem_append.mpr (Or.inl (eq ▸ memM e he hs)))))
    have kD : ∀ e ∈ p.data, selData cfg e = true → dataKey cfg e ≠ k :=
      fun e he hs eq => hk (List.mem_append.mpr (Or.inr (List.mem_append.mpr (Or.inr (eq ▸ memD e he hs)))))
    exact frame_trans (frame_trans (fr1 k kH) (fr2 k kM)) (fr3 k kD)

include hdry honly hD hdest in
/-- when every selected rule's destination already holds its node, the body changes nothing -/
theorem filesBody_fixed (p : Plan) (hfo : FilesOnly p)
    (hokH : ∀ e ∈ p.headers, okData e) (hokM : ∀ e ∈ p.man, okData e) (hokD : ∀ e ∈ p.data, okData e)
    (s : St) (hNL : NL s.fs)
    (hH : ∀ e ∈ p.headers, selData cfg e = true → s.fs.get (headerKey cfg e) = some (fileNode cfg e))
    (hM : ∀ e ∈ p.man, selData cfg e = true → s.fs.get (dataKey cfg e) = some (fileNode cfg e))
    (hDd : ∀ e ∈ p.data, selData cfg e = true → s.fs.get (dataKey cfg e) = some (fileNode cfg e))
    (hf : (installBody cfg p s).failed = false) :
    ∀ k, (installBody cfg p s).fs.get k = s.fs.get k := by
  obtain ⟨h1, h2, h3, h4⟩ := hfo
  unfold installBody at hf ⊢
  simp only [h1, h2, h3, h4, List.foldl_nil] at hf ⊢
  have RH := ruleSpec_header cfg hdry honly hD hdest
  have RM := ruleSpec_man cfg hdry honly hD hdest
  have RD := ruleSpec_data cfg hdry honly hD hdest
  have hf2 : ((p.man.foldl (installMan cfg) (p.headers.foldl (installHeader cfg) s))).failed = false := by
    by_cases e : (p.man.foldl (installMan cfg) (p.headers.foldl (installHeader cfg) s)).failed = true
    · rw [foldl_failed_sticky RD _ _ e] at hf; rw [hf] at e; cases e
    · simpa using e
  have hf1 : (p.headers.foldl (installHeader cfg) s).failed = false := by
    by_cases e : (p.headers.foldl (installHeader cfg) s).failed = true
    · rw [foldl_failed_sticky RM _ _ e] at hf2; rw [hf2] at e; cases e
    · simpa using e
  obtain ⟨n1, e1⟩ := fold_rules_fixed RH p.headers hokH s hNL hH hf1
  obtain ⟨n2, e2⟩ := fold_rules_fixed RM p.man hokM _ n1 (fun e he hs => by rw [e1]; exact hM e he hs) hf2
  obtain ⟨_, e3⟩ := fold_rules_fixed RD p.data hokD _ n2 (fun e he hs => by rw [e2, e1]; exact hDd e he hs) hf
  intro k
  rw [e3, e2, e1]

end

end MesonModel.Install
