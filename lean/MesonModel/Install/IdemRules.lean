/-
Helper lemmas for C11: a second installation changes NO key (destinations and everything else) for plans of file rules
and empty directories.  `os.makedirs` over a path whose end exists is a no-op on a well-formed tree (`WF`: every entry
sits in a directory), and `WF` after the first installation comes from the log invariant (`install_LG`).
-/
import MesonModel.Install.AllRules

namespace MesonModel.Install

/-- `DirMaker.makedirs(path)` when `path` exists, on a well-formed link-free tree: nothing changes -/
theorem dmMakedirs_noop (cfg : Cfg) (hdry : cfg.dryRun = false) (path : Str) (b : Bool) (s : St) (hNL : NL s.fs)
    (hWF : WF s.fs) (hb : s.fs.get (keyOf cfg.cwd path) ≠ none) (hf : (dmMakedirs cfg path b s).failed = false) :
    ∀ k, (dmMakedirs cfg path b s).fs.get k = s.fs.get k := by
  unfold dmMakedirs at hf ⊢
  dsimp only at hf ⊢
  have hf1 : (mkdirs cfg path b s).failed = false := by
    split at hf
    · rename_i h1; rw [h1] at hf; cases hf
    · rename_i h1; simpa using h1
  simp only [hf1, Bool.false_eq_true, if_false]
  unfold mkdirs at hf1 ⊢
  simp only [hdry, Bool.false_eq_true, if_false] at hf1 ⊢
  by_cases hK : keyOf cfg.cwd path = []
  · simp only [hK, if_true] at hf1 ⊢
    split
    · exact fun _ => rfl
    · rename_i hb'; simp [hb', St.failed, St.fail] at hf1
  · simp only [hK, if_false] at hf1 ⊢
    obtain ⟨_, _, _, m4, _⟩ := mkdirsGo_spec _ b (keyOf cfg.cwd path) [] s hNL hf1
    intro k
    rcases m4 k with e | ⟨r1, hr1, hr2, hk, hn, _⟩
    · exact e
    · exfalso
      have hk' : k = r1 := by simpa using hk
      subst hk'
      have hlen := hr1.length_le
      exact WF_prefix_present hWF ((keyOf cfg.cwd path).length - k.length) (keyOf cfg.cwd path) k (by omega) hr1 hr2 hb hn

theorem ocTargetNode_plain (cfg : Cfg) (honly : cfg.onlyChanged = false) (t : TargetEntry) (prev : Option Node) :
    ocTargetNode cfg t.mode t.src prev = targetNode cfg t := by
  unfold ocTargetNode targetNode
  cases t.src <;> try rfl
  cases prev with
  | none => rfl
  | some n => cases n <;> simp [honly]

section
variable {D : Key} (cfg : Cfg) (hdry : cfg.dryRun = false) (honly : cfg.onlyChanged = false) (hD : D ≠ [])
  (hdest : Dest cfg D)

/-- from a `RuleSpec` (state-independent node): a rule whose destination already holds its node changes nothing -/
theorem fixed_of_ruleSpec {α : Type} {dm : Nat} {f : St → α → St} {ok : α → Prop} {sel : α → Bool} {key : α → Key}
    {node : α → Node} (R : RuleSpec dm f ok sel key node) (s : St) (e : α) (hok : ok e) (hsel : sel e = true)
    (hNL : NL s.fs) (hthere : s.fs.get (key e) = some (node e)) (hf : (f s e).failed = false) :
    ∀ k, (f s e).fs.get k = s.fs.get k := by
  obtain ⟨_, g, fr⟩ := R.spec s e hok hsel hNL hf
  intro k
  by_cases hk : k = key e
  · rw [hk, g, hthere]
  · rcases fr k hk with h | ⟨h, _⟩
    · exact h
    · rw [hthere] at h; cases h

include hdry hD hdest in
theorem emptydir_fixed (s : St) (e : EmptyDirEntry) (hsel : selEmpty cfg e = true) (hNL : NL s.fs) (hWF : WF s.fs)
    (x : Option Node) (hthere : s.fs.get (emptyKey cfg e) = some (emptyNode cfg e x))
    (hf : (installEmptydir cfg s e).failed = false) :
    ∀ k, (installEmptydir cfg s e).fs.get k = s.fs.get k := by
  unfold installEmptydir at hf ⊢
  unfold emptyKey at hthere
  simp only [selEmpty] at hsel
  by_cases hs : s.failed = true
  · simp [hs]
  · simp only [hs, hsel, Bool.not_true, Bool.false_eq_true, if_false] at hf ⊢
    cases hdp : destPath cfg e.path with
    | none => rw [hdp] at hf; simp [St.failed, St.fail] at hf
    | some full =>
      rw [hdp] at hf hthere
      dsimp only at hf hthere ⊢
      have hg : Good D full := hdest _ _ hdp
      have hk := hg.key_ne_nil cfg hD
      obtain ⟨M, hM, hidem⟩ : ∃ M, emptyNode cfg e x = .dir M ∧ modeRule cfg e.mode M = M := by
        unfold emptyNode
        cases x with
        | none => exact ⟨_, rfl, modeRule_idem _ _ _⟩
        | some n => cases n <;> exact ⟨_, rfl, modeRule_idem _ _ _⟩
      rw [hM] at hthere
      have hNL0 : NL ({ s with didInstall := true } : St).fs := hNL
      have hisf : isFileF { s with didInstall := true } (keyOf cfg.cwd full) = false := by
        unfold isFileF
        rw [follow_eq_look hNL0, look_of_ne_nil _ _ hk]
        show (match s.fs.get (keyOf cfg.cwd full) with | some (.file ..) => true | _ => false) = false
        rw [hthere]
      simp only [hisf, Bool.false_eq_true, if_false] at hf ⊢
      by_cases hm : (dmMakedirs cfg full true { s with didInstall := true }).failed = true
      · simp [hm] at hf
      · have hm' : (dmMakedirs cfg full true { s with didInstall := true }).failed = false := by simpa using hm
        simp only [hm', Bool.false_eq_true, if_false] at hf ⊢
        have hnoop := dmMakedirs_noop cfg hdry full true { s with didInstall := true } hNL0 hWF
          (by show s.fs.get (keyOf cfg.cwd full) ≠ none; rw [hthere]; simp) hm'
        have hdir : (dmMakedirs cfg full true { s with didInstall := true }).fs.get (keyOf cfg.cwd full) = some (.dir M) := by
          rw [hnoop]; exact hthere
        obtain ⟨a, b, _⟩ := setMode_dir_spec cfg hdry _ hk e.mode _ M hdir
        intro k
        by_cases hkk : k = keyOf cfg.cwd full
        · rw [hkk, a, hidem]; exact hthere.symm
        · rw [b k hkk, hnoop]

include hdry honly hD hdest in
/-- any rule of the unified list: when its destination already holds what the rule makes of *something*, running it
changes nothing -/
theorem stepRule_fixed (r : Rule) (hok : ruleOk r) (hsel : ruleSel cfg r = true) (s : St) (hNL : NL s.fs)
    (hWF : WF s.fs) (x : Option Node) (hthere : s.fs.get (ruleKey cfg r) = some (ruleNode cfg r x))
    (hf : (stepRule cfg s r).failed = false) : ∀ k, (stepRule cfg s r).fs.get k = s.fs.get k := by
  cases r with
  | T t =>
    exact fixed_of_ruleSpec (ruleSpec_target cfg hdry honly hD hdest) s t hok hsel hNL
      (by rw [← ocTargetNode_plain cfg honly t x]; exact hthere) hf
  | H e =>
    exact fixed_of_ruleSpec (ruleSpec_header cfg hdry honly hD hdest) s e hok hsel hNL
      (by rw [← ocNode_plain cfg honly e x]; exact hthere) hf
  | M e =>
    exact fixed_of_ruleSpec (ruleSpec_man cfg hdry honly hD hdest) s e hok hsel hNL
      (by rw [← ocNode_plain cfg honly e x]; exact hthere) hf
  | D e =>
    exact fixed_of_ruleSpec (ruleSpec_data cfg hdry honly hD hdest) s e hok hsel hNL
      (by rw [← ocNode_plain cfg honly e x]; exact hthere) hf
  | E e => exact emptydir_fixed cfg hdry hD hdest s e hsel hNL hWF x hthere hf

include hdry honly hD hdest in
theorem rules_fold_fixed (l : List Rule) (hok : ∀ r ∈ l, ruleOk r) (s : St) (hNL : NL s.fs) (hWF : WF s.fs)
    (hthere : ∀ r ∈ l, ruleSel cfg r = true → ∃ x, s.fs.get (ruleKey cfg r) = some (ruleNode cfg r x))
    (hf : (l.foldl (stepRule cfg) s).failed = false) : ∀ k, (l.foldl (stepRule cfg) s).fs.get k = s.fs.get k := by
  induction l generalizing s with
  | nil => exact fun _ => rfl
  | cons a t ih =>
    simp only [List.foldl_cons] at hf ⊢
    have R := ruleSpecS_all cfg hdry hD hdest
    have hs1 : (stepRule cfg s a).failed = false := foldl_ok_of_ok_S R t _ hf
    have hsame : ∀ k, (stepRule cfg s a).fs.get k = s.fs.get k := by
      by_cases hsel : ruleSel cfg a = true
      · obtain ⟨x, hx⟩ := hthere a (by simp) hsel
        exact stepRule_fixed cfg hdry honly hD hdest a (hok a (by simp)) hsel s hNL hWF x hx hs1
      · have : ruleSel cfg a = false := by simpa using hsel
        rw [R.skip s a this]; exact fun _ => rfl
    have hNL1 : NL (stepRule cfg s a).fs := fun k t' e' => hNL k t' (by rw [← hsame k]; exact e')
    have hWF1 : WF (stepRule cfg s a).fs := by
      intro c hc hg
      rw [hsame] at hg
      rcases hWF c hc hg with e | ⟨m, hm⟩
      · exact Or.inl e
      · exact Or.inr ⟨m, by rw [hsame]; exact hm⟩
    have := ih (fun r hr => hok r (by simp [hr])) (stepRule cfg s a) hNL1 hWF1
      (fun r hr hs => by obtain ⟨x, hx⟩ := hthere r (by simp [hr]) hs; exact ⟨x, by rw [hsame]; exact hx⟩) hf
    exact fun k => by rw [this k, hsame k]

end

end MesonModel.Install
