/-
Helper lemmas for C11: install rules whose result at the destination depends on what was there before
(`--only-changed` keeps a newer destination, an empty directory keeps an existing directory's permissions base),
over lists with pairwise different destinations.  `RuleSpecS` generalises `RuleSpec` (state-independent node) and
is parameterised by the tree invariant the rule needs and maintains.
-/
import MesonModel.Install.OnlyChangedSpec

namespace MesonModel.Install

structure RuleSpecS {α : Type} (I : FS → Prop) (dirMode : Nat) (f : St → α → St) (ok : α → Prop) (sel : α → Bool)
    (key : α → Key) (node : α → Option Node → Node) : Prop where
  skip : ∀ s e, sel e = false → f s e = s
  failed : ∀ s e, s.failed = true → f s e = s
  /-- an absent destination and one that an earlier rule's `makedirs` created as a directory give the same result -/
  absent : ∀ e, node e none = node e (some (.dir dirMode))
  spec : ∀ s e, ok e → sel e = true → I s.fs → (f s e).failed = false →
    I (f s e).fs ∧ (f s e).fs.get (key e) = some (node e (s.fs.get (key e))) ∧
    ∀ k, k ≠ key e → (f s e).fs.get k = s.fs.get k ∨
      (s.fs.get k = none ∧ (f s e).fs.get k = some (.dir dirMode))

section
variable {α : Type} {I : FS → Prop} {dirMode : Nat} {f : St → α → St} {ok : α → Prop} {sel : α → Bool}
  {key : α → Key} {node : α → Option Node → Node}

theorem foldl_failed_sticky_S (R : RuleSpecS I dirMode f ok sel key node) (l : List α) (s : St)
    (h : s.failed = true) : l.foldl f s = s := by
  induction l generalizing s with
  | nil => rfl
  | cons a t ih => simp only [List.foldl_cons]; rw [R.failed s a h]; exact ih s h

theorem foldl_ok_of_ok_S (R : RuleSpecS I dirMode f ok sel key node) (l : List α) (s : St)
    (h : (l.foldl f s).failed = false) : s.failed = false := by
  by_cases e : s.failed = true
  · rw [foldl_failed_sticky_S R l s e] at h; rw [h] at e; cases e
  · simpa using e

/-- rules with pairwise different destinations: every selected rule's destination holds the node the rule makes of
what was there *initially*; every other key is as before or a newly created directory -/
theorem fold_rules_exact_S (R : RuleSpecS I dirMode f ok sel key node) (l : List α)
    (hok : ∀ e ∈ l, ok e)
    (hdist : l.Pairwise (fun a b => sel a = true → sel b = true → key a ≠ key b))
    (s : St) (hI : I s.fs) (hf : (l.foldl f s).failed = false) :
    I (l.foldl f s).fs ∧
    (∀ e ∈ l, sel e = true → (l.foldl f s).fs.get (key e) = some (node e (s.fs.get (key e)))) ∧
    (∀ k, (∀ e ∈ l, sel e = true → key e ≠ k) →
      (l.foldl f s).fs.get k = s.fs.get k ∨ (s.fs.get k = none ∧ (l.foldl f s).fs.get k = some (.dir dirMode))) := by
  induction l generalizing s with
  | nil => exact ⟨hI, by simp, fun k _ => Or.inl rfl⟩
  | cons a t ih =>
    simp only [List.foldl_cons] at hf ⊢
    have hd := List.pairwise_cons.mp hdist
    have hs1 : (f s a).failed = false := foldl_ok_of_ok_S R t _ hf
    by_cases hsel : sel a = true
    · obtain ⟨n1, g1, fr1⟩ := R.spec s a (hok a (by simp)) hsel hI hs1
      obtain ⟨n2, g2, fr2⟩ := ih (fun e he => hok e (by simp [he])) hd.2 (f s a) n1 hf
      refine ⟨n2, ?_, ?_⟩
      · intro e he hse
        rcases List.mem_cons.mp he with rfl | he'
        · rcases fr2 (key e) (fun e' he' hse' => (hd.1 e' he' hsel hse').symm) with h | ⟨h, _⟩
          · rw [h, g1]
          · rw [g1] at h; cases h
        · rw [g2 e he' hse]
          have hne : key e ≠ key a := (hd.1 e he' hsel hse).symm
          rcases fr1 (key e) hne with h | ⟨h0, h1⟩
          · rw [h]
          · rw [h0, h1, R.absent e]
      · intro k hk
        have hka : k ≠ key a := fun e => hk a (by simp) hsel e.symm
        rcases fr2 k (fun e he hse => hk e (by simp [he]) hse) with h | ⟨h1, h2⟩
        · rcases fr1 k hka with h' | ⟨h1', h2'⟩
          · exact Or.inl (by rw [h, h'])
          · exact Or.inr ⟨h1', by rw [h, h2']⟩
        · rcases fr1 k hka with h' | ⟨_, h2'⟩
          · exact Or.inr ⟨by rw [← h', h1], h2⟩
          · rw [h2'] at h1; cases h1
    · have hsel' : sel a = false := by simpa using hsel
      rw [R.skip s a hsel'] at hf ⊢
      obtain ⟨n2, g2, fr2⟩ := ih (fun e he => hok e (by simp [he])) hd.2 s hI hf
      refine ⟨n2, ?_, ?_⟩
      · intro e he hse
        rcases List.mem_cons.mp he with rfl | he'
        · rw [hsel'] at hse; cases hse
        · exact g2 e he' hse
      · intro k hk
        exact fr2 k (fun e he hse => hk e (by simp [he]) hse)

end

/-! ### the file rules, with or without `--only-changed` -/

theorem ocNode_absent (cfg : Cfg) (mode : Option FileMode) (src : Src) (dm : Nat) :
    ocNode cfg mode src none = ocNode cfg mode src (some (.dir dm)) ∧
    ocTargetNode cfg mode src none = ocTargetNode cfg mode src (some (.dir dm)) := by
  unfold ocNode ocTargetNode
  cases src <;> exact ⟨rfl, rfl⟩

section
variable {D : Key} (cfg : Cfg) (hdry : cfg.dryRun = false) (hD : D ≠ []) (hdest : Dest cfg D)

include hdry hD in
theorem fileRule_spec_oc (e : DataEntry) (hok : okData e) (out od : Str) (fo : Option Bool) (s : St)
    (hg : Good D out) (hNL : NL s.fs) (hf : (installFileTo cfg e out od fo s).failed = false) :
    NL (installFileTo cfg e out od fo s).fs ∧
    (installFileTo cfg e out od fo s).fs.get (keyOf cfg.cwd out) =
      some (ocNode cfg e.mode e.src (s.fs.get (keyOf cfg.cwd out))) ∧
    ∀ k, k ≠ keyOf cfg.cwd out → (installFileTo cfg e out od fo s).fs.get k = s.fs.get k ∨
      (s.fs.get k = none ∧
        (installFileTo cfg e out od fo s).fs.get k = some (.dir (andNot 0o777 cfg.procUmask))) := by
  have hk := hg.key_ne_nil cfg hD
  by_cases hfile : ∃ m d t, e.src = .file m d t
  · obtain ⟨m, d, t, hsrc⟩ := hfile
    exact installFileTo_oc cfg hdry e out od fo s m d t hsrc hNL hk hf
  · have := installFileTo_nonfile_fails cfg e out od fo s hok.2 (fun m d t h => hfile ⟨m, d, t, h⟩)
    rw [this] at hf; cases hf

include hdry hD hdest in
theorem ruleSpecS_data : RuleSpecS NL (andNot 0o777 cfg.procUmask) (installDataOne cfg) okData (selData cfg)
    (dataKey cfg) (fun e prev => ocNode cfg e.mode e.src prev) where
  skip := by intro s e h; unfold installDataOne; simp only [selData] at h; simp [h]
  failed := by intro s e h; unfold installDataOne; simp [h]
  absent := fun e => (ocNode_absent cfg e.mode e.src _).1
  spec := by
    intro s e hok hsel hNL hf
    unfold installDataOne at hf ⊢
    unfold dataKey
    simp only [selData] at hsel
    by_cases hs : s.failed = true
    · simp only [hs, if_true] at hf; cases hf
    · simp only [hs, hsel, Bool.not_true, Bool.false_eq_true, if_false] at hf ⊢
      cases hdp : destPath cfg e.installPath with
      | none => rw [hdp] at hf; simp [St.failed, St.fail] at hf
      | some out =>
        rw [hdp] at hf
        dsimp only at hf ⊢
        exact fileRule_spec_oc cfg hdry hD e hok out _ _ s (hdest _ _ hdp) hNL hf

include hdry hD hdest in
theorem ruleSpecS_man : RuleSpecS NL (andNot 0o777 cfg.procUmask) (installMan cfg) okData (selData cfg)
    (dataKey cfg) (fun e prev => ocNode cfg e.mode e.src prev) where
  skip := by intro s e h; unfold installMan; simp only [selData] at h; simp [h]
  failed := by intro s e h; unfold installMan; simp [h]
  absent := fun e => (ocNode_absent cfg e.mode e.src _).1
  spec := by
    intro s e hok hsel hNL hf
    unfold installMan at hf ⊢
    unfold dataKey
    simp only [selData] at hsel
    by_cases hs : s.failed = true
    · simp only [hs, if_true] at hf; cases hf
    · simp only [hs, hsel, Bool.not_true, Bool.false_eq_true, if_false] at hf ⊢
      cases hdp : destPath cfg e.installPath with
      | none => rw [hdp] at hf; simp [St.failed, St.fail] at hf
      | some out =>
        rw [hdp] at hf
        dsimp only at hf ⊢
        exact fileRule_spec_oc cfg hdry hD e hok out _ _ s (hdest _ _ hdp) hNL hf

include hdry hD hdest in
theorem ruleSpecS_header : RuleSpecS NL (andNot 0o777 cfg.procUmask) (installHeader cfg) okData (selData cfg)
    (headerKey cfg) (fun e prev => ocNode cfg e.mode e.src prev) where
  skip := by intro s e h; unfold installHeader; simp only [selData] at h; simp [h]
  failed := by intro s e h; unfold installHeader; simp [h]
  absent := fun e => (ocNode_absent cfg e.mode e.src _).1
  spec := by
    intro s e hok hsel hNL hf
    unfold installHeader at hf ⊢
    unfold headerKey
    simp only [selData] at hsel
    by_cases hs : s.failed = true
    · simp only [hs, if_true] at hf; cases hf
    · simp only [hs, hsel, Bool.not_true, Bool.false_eq_true, if_false] at hf ⊢
      cases hdp : destPath cfg e.installPath with
      | none => rw [hdp] at hf; simp [St.failed, St.fail] at hf
      | some od =>
        rw [hdp] at hf
        dsimp only at hf ⊢
        exact fileRule_spec_oc cfg hdry hD e hok _ od _ s
          ((hdest _ _ hdp).join_name (basename_noSep _) hok.1) hNL hf

include hdry hD hdest in
theorem ruleSpecS_target : RuleSpecS NL (andNot 0o777 cfg.procUmask) (installTarget cfg) okTarget (selTarget cfg)
    (targetKey cfg) (fun t prev => ocTargetNode cfg t.mode t.src prev) where
  skip := by intro s e h; unfold installTarget; simp only [selTarget] at h; simp [h]
  failed := by intro s e h; unfold installTarget; simp [h]
  absent := fun t => (ocNode_absent cfg t.mode t.src _).2
  spec := by
    intro s t hok hsel hNL hf
    obtain ⟨hb, m, d, tt, hsrc⟩ := hok
    unfold installTarget at hf ⊢
    unfold targetKey
    simp only [selTarget] at hsel
    by_cases hs : s.failed = true
    · simp only [hs, if_true] at hf; cases hf
    · simp only [hs, hsel, Bool.not_true, Bool.false_eq_true, if_false, hsrc] at hf ⊢
      cases hdp : destPath cfg t.outdir with
      | none => rw [hdp] at hf; simp [St.failed, St.fail] at hf
      | some od =>
        rw [hdp] at hf
        dsimp only at hf ⊢
        have hg : Good D (join od (basename t.fname)) := (hdest _ _ hdp).join_name (basename_noSep _) hb
        have hk := hg.key_ne_nil cfg hD
        by_cases hc : (doCopyfile cfg t.fname (.file m d tt) (join od (basename t.fname)) (some od) none s).1.failed = true
        · simp [hc] at hf
        · have hc' : (doCopyfile cfg t.fname (.file m d tt) (join od (basename t.fname)) (some od) none s).1.failed = false := by
            simpa using hc
          rcases doCopyfile_file_spec_oc cfg hdry t.fname (join od (basename t.fname)) m d tt (some od) none s hNL hk hc' with
            ⟨hkeep, h2, hfs⟩ | ⟨hnk, h22, n1, h2, h3⟩
          · obtain ⟨ho, m', d', t', hg', hle⟩ := hkeep
            simp only [hc', h2, Bool.false_eq_true, if_false]
            rw [hfs]
            refine ⟨hNL, ?_, fun k _ => Or.inl rfl⟩
            rw [hg', (ocNode_keeps cfg t.mode m d tt m' d' t' ho hle).2]
          · simp only [hc', h22, Bool.false_eq_true, if_false, if_true] at hf ⊢
            obtain ⟨a, b, _⟩ := setMode_file_spec cfg hdry _ hk t.mode
              { (doCopyfile cfg t.fname (.file m d tt) (join od (basename t.fname)) (some od) none s).1 with didInstall := true }
              m d tt h2
            refine ⟨?_, ?_, fun k hkk => ?_⟩
            · intro k t' e'
              by_cases hkk : k = keyOf cfg.cwd (join od (basename t.fname))
              · rw [hkk, a] at e'; cases e'
              · rw [b k hkk] at e'; exact n1 k t' e'
            · rw [a, (ocNode_not_keeps cfg t.mode m d tt _ hnk).2]
            · rw [b k hkk]
              rcases h3 k hkk with h | ⟨_, h1, h2'⟩
              · exact Or.inl h
              · exact Or.inr ⟨h1, h2'⟩

include hdry hD hdest in
/-- **the whole body of a files-only plan with pairwise different destinations, with or without
`--only-changed`, on any link-free tree**: each selected rule's destination holds what the rule makes of the node
that was there initially; every other key is as before or a new directory -/
theorem filesBody_exact_oc (p : Plan) (hfo : FilesOnly p)
    (hokT : ∀ t ∈ p.targets, okTarget t)
    (hokH : ∀ e ∈ p.headers, okData e) (hokM : ∀ e ∈ p.man, okData e) (hokD : ∀ e ∈ p.data, okData e)
    (hnd : (plannedKeys cfg p).Nodup) (s : St) (hNL : NL s.fs) (hf : (installBody cfg p s).failed = false) :
    NL (installBody cfg p s).fs ∧
    (∀ t ∈ p.targets, selTarget cfg t = true →
      (installBody cfg p s).fs.get (targetKey cfg t) = some (ocTargetNode cfg t.mode t.src (s.fs.get (targetKey cfg t)))) ∧
    (∀ e ∈ p.headers, selData cfg e = true →
      (installBody cfg p s).fs.get (headerKey cfg e) = some (ocNode cfg e.mode e.src (s.fs.get (headerKey cfg e)))) ∧
    (∀ e ∈ p.man, selData cfg e = true →
      (installBody cfg p s).fs.get (dataKey cfg e) = some (ocNode cfg e.mode e.src (s.fs.get (dataKey cfg e)))) ∧
    (∀ e ∈ p.data, selData cfg e = true →
      (installBody cfg p s).fs.get (dataKey cfg e) = some (ocNode cfg e.mode e.src (s.fs.get (dataKey cfg e)))) ∧
    (∀ k, k ∉ plannedKeys cfg p → (installBody cfg p s).fs.get k = s.fs.get k ∨
      (s.fs.get k = none ∧ (installBody cfg p s).fs.get k = some (.dir (andNot 0o777 cfg.procUmask)))) := by
  obtain ⟨h1, h3, h4⟩ := hfo
  have hbody : installBody cfg p s = p.data.foldl (installDataOne cfg) (p.man.foldl (installMan cfg)
      (p.headers.foldl (installHeader cfg) (p.targets.foldl (installTarget cfg) s))) := by
    unfold installBody; simp only [h1, h3, h4, List.foldl_nil]
  rw [hbody] at hf ⊢
  have RT := ruleSpecS_target cfg hdry hD hdest
  have RH := ruleSpecS_header cfg hdry hD hdest
  have RM := ruleSpecS_man cfg hdry hD hdest
  have RD := ruleSpecS_data cfg hdry hD hdest
  have hf3 := foldl_ok_of_ok_S RD _ _ hf
  have hf2 := foldl_ok_of_ok_S RM _ _ hf3
  have hf1 := foldl_ok_of_ok_S RH _ _ hf2
  unfold plannedKeys at hnd
  have hndT := (List.nodup_append.mp hnd).1
  have hnd2 := (List.nodup_append.mp hnd).2.1
  have hdisjT := (List.nodup_append.mp hnd).2.2
  have hndH := (List.nodup_append.mp hnd2).1
  have hnd3 := (List.nodup_append.mp hnd2).2.1
  have hdisjH := (List.nodup_append.mp hnd2).2.2
  have hndM := (List.nodup_append.mp hnd3).1
  have hndD := (List.nodup_append.mp hnd3).2.1
  have hdisjM := (List.nodup_append.mp hnd3).2.2
  obtain ⟨n1, g1, fr1⟩ := fold_rules_exact_S RT p.targets hokT (pairwise_of_nodup _ _ _ hndT) s hNL hf1
  obtain ⟨n2, g2, fr2⟩ := fold_rules_exact_S RH p.headers hokH (pairwise_of_nodup _ _ _ hndH) _ n1 hf2
  obtain ⟨n3, g3, fr3⟩ := fold_rules_exact_S RM p.man hokM (pairwise_of_nodup _ _ _ hndM) _ n2 hf3
  obtain ⟨n4, g4, fr4⟩ := fold_rules_exact_S RD p.data hokD (pairwise_of_nodup _ _ _ hndD) _ n3 hf
  have memT : ∀ e ∈ p.targets, selTarget cfg e = true → targetKey cfg e ∈ (p.targets.filter (selTarget cfg)).map (targetKey cfg) :=
    fun e he hs => List.mem_map.mpr ⟨e, List.mem_filter.mpr ⟨he, hs⟩, rfl⟩
  have memH : ∀ e ∈ p.headers, selData cfg e = true → headerKey cfg e ∈ (p.headers.filter (selData cfg)).map (headerKey cfg) :=
    fun e he hs => List.mem_map.mpr ⟨e, List.mem_filter.mpr ⟨he, hs⟩, rfl⟩
  have memM : ∀ e ∈ p.man, selData cfg e = true → dataKey cfg e ∈ (p.man.filter (selData cfg)).map (dataKey cfg) :=
    fun e he hs => List.mem_map.mpr ⟨e, List.mem_filter.mpr ⟨he, hs⟩, rfl⟩
  have memD : ∀ e ∈ p.data, selData cfg e = true → dataKey cfg e ∈ (p.data.filter (selData cfg)).map (dataKey cfg) :=
    fun e he hs => List.mem_map.mpr ⟨e, List.mem_filter.mpr ⟨he, hs⟩, rfl⟩
  refine ⟨n4, ?_, ?_, ?_, ?_, ?_⟩
  · intro t ht hs
    have hk := memT t ht hs
    have a2 := keep_node (g1 t ht hs) (fr2 _ (fun e' he' hs' eq =>
      hdisjT _ hk _ (List.mem_append.mpr (Or.inl (memH e' he' hs'))) eq.symm))
    have a3 := keep_node a2 (fr3 _ (fun e' he' hs' eq =>
      hdisjT _ hk _ (List.mem_append.mpr (Or.inr (List.mem_append.mpr (Or.inl (memM e' he' hs'))))) eq.symm))
    exact keep_node a3 (fr4 _ (fun e' he' hs' eq =>
      hdisjT _ hk _ (List.mem_append.mpr (Or.inr (List.mem_append.mpr (Or.inr (memD e' he' hs'))))) eq.symm))
  · intro e he hs
    have hk := memH e he hs
    have hkT : ∀ e' ∈ p.targets, selTarget cfg e' = true → targetKey cfg e' ≠ headerKey cfg e :=
      fun e' he' hs' eq => hdisjT _ (memT e' he' hs') _ (List.mem_append.mpr (Or.inl hk)) eq
    have a2 : (p.headers.foldl (installHeader cfg) (p.targets.foldl (installTarget cfg) s)).fs.get (headerKey cfg e) =
        some (ocNode cfg e.mode e.src (s.fs.get (headerKey cfg e))) := by
      rw [g2 e he hs]
      rcases fr1 _ hkT with h | ⟨h0, h1'⟩
      · rw [h]
      · rw [h0, h1', (ocNode_absent cfg e.mode e.src _).1]
    have a3 := keep_node a2 (fr3 _ (fun e' he' hs' eq =>
      hdisjH _ hk _ (List.mem_append.mpr (Or.inl (memM e' he' hs'))) eq.symm))
    exact keep_node a3 (fr4 _ (fun e' he' hs' eq =>
      hdisjH _ hk _ (List.mem_append.mpr (Or.inr (memD e' he' hs'))) eq.symm))
  · intro e he hs
    have hk := memM e he hs
    have hkT : ∀ e' ∈ p.targets, selTarget cfg e' = true → targetKey cfg e' ≠ dataKey cfg e :=
      fun e' he' hs' eq => hdisjT _ (memT e' he' hs') _
        (List.mem_append.mpr (Or.inr (List.mem_append.mpr (Or.inl hk)))) eq
    have hkH : ∀ e' ∈ p.headers, selData cfg e' = true → headerKey cfg e' ≠ dataKey cfg e :=
      fun e' he' hs' eq => hdisjH _ (memH e' he' hs') _ (List.mem_append.mpr (Or.inl hk)) eq
    have a3 : (p.man.foldl (installMan cfg) (p.headers.foldl (installHeader cfg) (p.targets.foldl (installTarget cfg) s))).fs.get
        (dataKey cfg e) = some (ocNode cfg e.mode e.src (s.fs.get (dataKey cfg e))) := by
      rw [g3 e he hs]
      rcases frame_trans (fr1 _ hkT) (fr2 _ hkH) with h | ⟨h0, h1'⟩
      · rw [h]
      · rw [h0, h1', (ocNode_absent cfg e.mode e.src _).1]
    exact keep_node a3 (fr4 _ (fun e' he' hs' eq => hdisjM _ hk _ (memD e' he' hs') eq.symm))
  · intro e he hs
    have hk := memD e he hs
    have hkT : ∀ e' ∈ p.targets, selTarget cfg e' = true → targetKey cfg e' ≠ dataKey cfg e :=
      fun e' he' hs' eq => hdisjT _ (memT e' he' hs') _
        (List.mem_append.mpr (Or.inr (List.mem_append.mpr (Or.inr hk)))) eq
    have hkH : ∀ e' ∈ p.headers, selData cfg e' = true → headerKey cfg e' ≠ dataKey cfg e :=
      fun e' he' hs' eq => hdisjH _ (memH e' he' hs') _ (List.mem_append.mpr (Or.inr hk)) eq
    have hkM : ∀ e' ∈ p.man, selData cfg e' = true → dataKey cfg e' ≠ dataKey cfg e :=
      fun e' he' hs' eq => hdisjM _ (memM e' he' hs') _ hk eq
    rw [g4 e he hs]
    rcases frame_trans (frame_trans (fr1 _ hkT) (fr2 _ hkH)) (fr3 _ hkM) with h | ⟨h0, h1'⟩
    · rw [h]
    · rw [h0, h1', (ocNode_absent cfg e.mode e.src _).1]
  · intro k hk
    unfold plannedKeys at hk
    simp only [List.mem_append, List.mem_map, List.mem_filter, not_or, not_exists, not_and] at hk
    have kT : ∀ e ∈ p.targets, selTarget cfg e = true → targetKey cfg e ≠ k := fun e he hs eq => hk.1 e ⟨he, hs⟩ eq
    have kH : ∀ e ∈ p.headers, selData cfg e = true → headerKey cfg e ≠ k := fun e he hs eq => hk.2.1 e ⟨he, hs⟩ eq
    have kM : ∀ e ∈ p.man, selData cfg e = true → dataKey cfg e ≠ k := fun e he hs eq => hk.2.2.1 e ⟨he, hs⟩ eq
    have kD : ∀ e ∈ p.data, selData cfg e = true → dataKey cfg e ≠ k := fun e he hs eq => hk.2.2.2 e ⟨he, hs⟩ eq
    exact frame_trans (frame_trans (frame_trans (fr1 k kT) (fr2 k kH)) (fr3 k kM)) (fr4 k kD)

end

end MesonModel.Install
