/-
Helper lemmas for C11: the decision of `meson install --only-changed` (`should_preserve_existing_file`) as a
function of the metadata it reads (`--only-changed`, kind of source, kind of destination, the two time stamps in
nanoseconds), and what a file rule leaves at its destination on *any* link-free tree, preserved or overwritten.
Rules whose result depends on what was at the destination (`RuleSpecS`).
-/
import MesonModel.Install.OnlyChanged

namespace MesonModel.Install

/-- the source's time stamp as `os.stat(from_file).st_mtime` sees it (a link to a file is followed) -/
def srcMtime : Src → Option Nat
  | .file _ _ t => some t
  | .linkFile _ _ _ t => some t
  | _ => none

/-- **the documented rule of `--only-changed` on stat tuples**: a destination is preserved iff the option is given,
the source is a regular file (or a link to one) and the destination is a regular file (or a link to one) that is
at least as new as the source -/
theorem shouldPreserve_iff (cfg : Cfg) (src : Src) (s : St) (kt : Key) :
    shouldPreserve cfg src s kt = true ↔
      cfg.onlyChanged = true ∧ ∃ mt, srcMtime src = some mt ∧
        ∃ m d tt, s.fs.follow kt = some (.file m d tt) ∧ mt ≤ tt := by
  unfold shouldPreserve
  by_cases ho : cfg.onlyChanged = true
  · simp only [ho, Bool.not_true, Bool.false_eq_true, if_false, true_and]
    cases src with
    | file m0 d0 t0 =>
      simp only [srcMtime, Option.some.injEq, exists_eq_left']
      cases hfo : s.fs.follow kt with
      | none => simp
      | some n =>
        cases n <;> simp <;>
          exact ⟨fun h => ⟨_, _, _, ⟨rfl, rfl, rfl⟩, h⟩, fun ⟨_, _, _, ⟨_, _, e⟩, h⟩ => by omega⟩
    | linkFile tg m0 d0 t0 =>
      simp only [srcMtime, Option.some.injEq, exists_eq_left']
      cases hfo : s.fs.follow kt with
      | none => simp
      | some n =>
        cases n <;> simp <;>
          exact ⟨fun h => ⟨_, _, _, ⟨rfl, rfl, rfl⟩, h⟩, fun ⟨_, _, _, ⟨_, _, e⟩, h⟩ => by omega⟩
    | missing => simp [srcMtime]
    | dir => simp [srcMtime]
    | linkDangling _ => simp [srcMtime]
    | linkDir _ => simp [srcMtime]
  · simp [ho]

/-- a source that is newer than the destination — by any amount, one nanosecond included — is never preserved -/
theorem shouldPreserve_newer (cfg : Cfg) (src : Src) (s : St) (kt : Key) (mt m d tt : Nat)
    (hs : srcMtime src = some mt) (hd : s.fs.follow kt = some (.file m d tt)) (hlt : tt < mt) :
    shouldPreserve cfg src s kt = false := by
  cases h : shouldPreserve cfg src s kt with
  | false => rfl
  | true =>
    obtain ⟨_, mt', h1, m', d', tt', h2, h3⟩ := (shouldPreserve_iff cfg src s kt).mp h
    rw [hs] at h1; rw [hd] at h2
    cases h1; cases h2
    omega

/-- a dangling link (or a link to a directory) as source is always installed again -/
theorem shouldPreserve_dangling (cfg : Cfg) (s : St) (kt : Key) (t : Str) :
    shouldPreserve cfg (.linkDangling t) s kt = false ∧ shouldPreserve cfg (.linkDir t) s kt = false := by
  constructor <;> (unfold shouldPreserve; split <;> rfl)

/-! ### `do_copyfile` of a regular file on any link-free tree -/

theorem doCopyfile_preserved' (cfg : Cfg) (honly : cfg.onlyChanged = true)
    (fp to : Str) (m d t m' d' t' : Nat) (mk : Option Str) (fo : Option Bool) (s : St)
    (hNL : NL s.fs) (hk : keyOf cfg.cwd to ≠ []) (hg : s.fs.get (keyOf cfg.cwd to) = some (.file m' d' t'))
    (hle : t ≤ t') :
    (doCopyfile cfg fp (.file m d t) to mk fo s).2 = false ∧
    (doCopyfile cfg fp (.file m d t) to mk fo s).1.fs = s.fs ∧
    (doCopyfile cfg fp (.file m d t) to mk fo s).1.failed = s.failed := by
  have hlook : s.fs.look (keyOf cfg.cwd to) = some (.file m' d' t') := by rw [look_of_ne_nil _ _ hk]; exact hg
  have hlex : lexists s (keyOf cfg.cwd to) = true := by simp [lexists, hlook]
  have hfol : s.fs.follow (keyOf cfg.cwd to) = some (.file m' d' t') := by rw [follow_eq_look hNL]; exact hlook
  have hisf : isFileF s (keyOf cfg.cwd to) = true := by simp [isFileF, hfol]
  have hpres : shouldPreserve cfg (.file m d t) s (keyOf cfg.cwd to) = true := by
    simp [shouldPreserve, honly, hfol, hle]
  have hP : copyPrepare cfg (.file m d t) to mk s =
      (({ s with preserved := s.preserved + 1 }).logLine (preservingPrefix ++ to), dirname to, true) := by
    unfold copyPrepare
    simp [hlex, hisf, hpres]
  unfold doCopyfile
  simp only [srcCopyable, Bool.not_true, Bool.false_eq_true, if_false, hP, Bool.true_or, if_true]
  exact ⟨trivial, rfl, rfl⟩

/-- `doCopyfile_file_spec` with the hypothesis it really needs: the destination is not preserved -/
theorem doCopyfile_file_spec_np (cfg : Cfg) (hdry : cfg.dryRun = false)
    (fp to : Str) (m d t : Nat) (mk : Option Str) (fo : Option Bool) (s : St) (hNL : NL s.fs)
    (hk : keyOf cfg.cwd to ≠ [])
    (hnp : shouldPreserve cfg (.file m d t) s (keyOf cfg.cwd to) = false)
    (hf : (doCopyfile cfg fp (.file m d t) to mk fo s).1.failed = false) :
    (doCopyfile cfg fp (.file m d t) to mk fo s).2 = true ∧
    NL (doCopyfile cfg fp (.file m d t) to mk fo s).1.fs ∧
    (doCopyfile cfg fp (.file m d t) to mk fo s).1.fs.get (keyOf cfg.cwd to) = some (.file m d t) ∧
    ∀ k, k ≠ keyOf cfg.cwd to →
      (doCopyfile cfg fp (.file m d t) to mk fo s).1.fs.get k = s.fs.get k ∨
      (s.fs.get (keyOf cfg.cwd to) = none ∧ s.fs.get k = none ∧
        (doCopyfile cfg fp (.file m d t) to mk fo s).1.fs.get k = some (.dir (andNot 0o777 cfg.procUmask))) := by
  unfold doCopyfile at hf ⊢
  simp only [srcCopyable, Bool.not_true, Bool.false_eq_true, if_false] at hf ⊢
  have hP : (copyPrepare cfg (.file m d t) to mk s).1.failed = false := by
    by_cases e : (copyPrepare cfg (.file m d t) to mk s).1.failed = true
    · simp [e] at hf
    · simpa using e
  have hpay : ∀ od s1, copyPayload cfg fp (.file m d t) to od fo s1 = putFile cfg (keyOf cfg.cwd to) m d t s1 := by
    intro od s1; unfold copyPayload; rfl
  have hfile_nl : ∀ (s1 : St), NL s1.fs → NL (s1.write (keyOf cfg.cwd to) (.file m d t)).fs := by
    intro s1 h1 k' t'
    simp only [St.write]
    by_cases e : k' = keyOf cfg.cwd to
    · subst e; rw [get_set_same]; simp
    · rw [get_set_other _ _ _ _ e]; exact h1 k' t'
  rcases copyPrepare_cases cfg hdry (.file m d t) to mk s hNL hk hP with
    ⟨hA1, hA2⟩ | ⟨hB1, _, hB3⟩ | ⟨hC1, hC2, od, _, hC4⟩ | ⟨hD1, _, _, hD4⟩
  · exfalso
    unfold copyPrepare at hA1 hP
    dsimp only at hA1 hP
    simp only [hnp, Bool.and_false, Bool.false_eq_true, if_false] at hA1 hP
    (repeat' split at hA1) <;> first
      | (simp at hA1; done)
      | (simp_all [St.failed, St.fail]; done)
  · simp only [hB1, hP, Bool.or_self, Bool.false_eq_true, if_false, hpay] at hf ⊢
    rw [hB3] at hf ⊢
    have hNL1 : NL (s.erase (keyOf cfg.cwd to)).fs := NL_del hNL _
    have hpf : (putFile cfg (keyOf cfg.cwd to) m d t (s.erase (keyOf cfg.cwd to))).failed = false := by
      by_cases e : (putFile cfg (keyOf cfg.cwd to) m d t (s.erase (keyOf cfg.cwd to))).failed = true
      · simp [e] at hf
      · simpa using e
    obtain ⟨_, _, _, hput⟩ := putFile_success cfg hdry _ m d t _ hk hNL1 hpf
    simp only [hpf, Bool.false_eq_true, if_false]
    rw [hput]
    refine ⟨trivial, hfile_nl _ hNL1, by simp [St.logLine, St.write, get_set_same], fun k hkk => Or.inl ?_⟩
    simp [St.logLine, St.write, St.erase, get_set_other _ _ _ _ hkk, get_del_other _ _ _ hkk]
  · simp only [hC1, hP, Bool.or_self, Bool.false_eq_true, if_false, hpay] at hf ⊢
    rw [hC4] at hf hP ⊢
    obtain ⟨hNL1, hspec⟩ := dmMakedirs_fs_spec cfg hdry od true s hNL hP
    have hpf : (putFile cfg (keyOf cfg.cwd to) m d t (dmMakedirs cfg od true s)).failed = false := by
      by_cases e : (putFile cfg (keyOf cfg.cwd to) m d t (dmMakedirs cfg od true s)).failed = true
      · simp [e] at hf
      · simpa using e
    obtain ⟨_, _, _, hput⟩ := putFile_success cfg hdry _ m d t _ hk hNL1 hpf
    simp only [hpf, Bool.false_eq_true, if_false]
    rw [hput]
    refine ⟨trivial, hfile_nl _ hNL1, by simp [St.logLine, St.write, get_set_same], fun k hkk => ?_⟩
    simp only [St.logLine, St.write, get_set_other _ _ _ _ hkk]
    rcases hspec k with e | ⟨e1, e2⟩
    · exact Or.inl e
    · exact Or.inr ⟨hC2, e1, e2⟩
  · simp only [hD1, hP, Bool.or_self, Bool.false_eq_true, if_false, hpay] at hf ⊢
    rw [hD4] at hf ⊢
    have hpf : (putFile cfg (keyOf cfg.cwd to) m d t s).failed = false := by
      by_cases e : (putFile cfg (keyOf cfg.cwd to) m d t s).failed = true
      · simp [e] at hf
      · simpa using e
    obtain ⟨_, _, _, hput⟩ := putFile_success cfg hdry _ m d t _ hk hNL hpf
    simp only [hpf, Bool.false_eq_true, if_false]
    rw [hput]
    refine ⟨trivial, hfile_nl _ hNL, by simp [St.logLine, St.write, get_set_same], fun k hkk => Or.inl ?_⟩
    simp [St.logLine, St.write, get_set_other _ _ _ _ hkk]

/-- the destination is a regular file at least as new as a source with time stamp `t`, and `--only-changed` is on -/
def Keeps (cfg : Cfg) (t : Nat) (prev : Option Node) : Prop :=
  cfg.onlyChanged = true ∧ ∃ m' d' t', prev = some (.file m' d' t') ∧ t ≤ t'

instance (cfg : Cfg) (t : Nat) (prev : Option Node) : Decidable (Keeps cfg t prev) := by
  unfold Keeps
  cases prev with
  | none => exact isFalse (by simp)
  | some n =>
    cases n with
    | dir _ => exact isFalse (by simp)
    | link _ => exact isFalse (by simp)
    | file m' d' t' =>
      exact decidable_of_iff (cfg.onlyChanged = true ∧ t ≤ t')
        ⟨fun ⟨a, b⟩ => ⟨a, m', d', t', rfl, b⟩, fun ⟨a, _, _, _, e, b⟩ => by cases e; exact ⟨a, b⟩⟩

theorem shouldPreserve_eq_keeps (cfg : Cfg) (m d t : Nat) (s : St) (kt : Key) (hNL : NL s.fs) (hk : kt ≠ []) :
    shouldPreserve cfg (.file m d t) s kt = true ↔ Keeps cfg t (s.fs.get kt) := by
  rw [shouldPreserve_iff, follow_eq_look hNL, look_of_ne_nil _ _ hk]
  unfold Keeps
  simp only [srcMtime, Option.some.injEq, exists_eq_left']

/-- **`do_copyfile` of a regular file, with or without `--only-changed`**: either the destination is kept
(exactly when it is a regular file at least as new as the source and `--only-changed` is on; then nothing changes),
or it holds the source's content, mode and time stamp afterwards -/
theorem doCopyfile_file_spec_oc (cfg : Cfg) (hdry : cfg.dryRun = false)
    (fp to : Str) (m d t : Nat) (mk : Option Str) (fo : Option Bool) (s : St) (hNL : NL s.fs)
    (hk : keyOf cfg.cwd to ≠ [])
    (hf : (doCopyfile cfg fp (.file m d t) to mk fo s).1.failed = false) :
    (Keeps cfg t (s.fs.get (keyOf cfg.cwd to)) ∧
      (doCopyfile cfg fp (.file m d t) to mk fo s).2 = false ∧
      (doCopyfile cfg fp (.file m d t) to mk fo s).1.fs = s.fs) ∨
    (¬ Keeps cfg t (s.fs.get (keyOf cfg.cwd to)) ∧
      (doCopyfile cfg fp (.file m d t) to mk fo s).2 = true ∧
      NL (doCopyfile cfg fp (.file m d t) to mk fo s).1.fs ∧
      (doCopyfile cfg fp (.file m d t) to mk fo s).1.fs.get (keyOf cfg.cwd to) = some (.file m d t) ∧
      ∀ k, k ≠ keyOf cfg.cwd to →
        (doCopyfile cfg fp (.file m d t) to mk fo s).1.fs.get k = s.fs.get k ∨
        (s.fs.get (keyOf cfg.cwd to) = none ∧ s.fs.get k = none ∧
          (doCopyfile cfg fp (.file m d t) to mk fo s).1.fs.get k = some (.dir (andNot 0o777 cfg.procUmask)))) := by
  by_cases hp : shouldPreserve cfg (.file m d t) s (keyOf cfg.cwd to) = true
  · left
    have hkp := (shouldPreserve_eq_keeps cfg m d t s _ hNL hk).mp hp
    obtain ⟨ho, m', d', t', hg, hle⟩ := hkp
    obtain ⟨a, b, _⟩ := doCopyfile_preserved' cfg ho fp to m d t m' d' t' mk fo s hNL hk hg hle
    exact ⟨⟨ho, m', d', t', hg, hle⟩, a, b⟩
  · right
    have hnp : shouldPreserve cfg (.file m d t) s (keyOf cfg.cwd to) = false := by simpa using hp
    refine ⟨fun hkp => hp ((shouldPreserve_eq_keeps cfg m d t s _ hNL hk).mpr hkp), ?_⟩
    exact doCopyfile_file_spec_np cfg hdry fp to m d t mk fo s hNL hk hnp hf

/-! ### what a file rule leaves at its destination, given what was there -/

/-- data / header / man rule: a kept destination keeps content and time stamp and gets the permission rule
re-applied (`set_mode` runs whether or not the file was copied); otherwise the source's content and time stamp -/
def ocNode (cfg : Cfg) (mode : Option FileMode) (src : Src) (prev : Option Node) : Node :=
  match src with
  | .file m d t =>
    match prev with
    | some (.file m' d' t') =>
      if cfg.onlyChanged && decide (t ≤ t') then .file (modeRule cfg mode m') d' t' else .file (modeRule cfg mode m) d t
    | _ => .file (modeRule cfg mode m) d t
  | _ => .dir 0

/-- target rule: `set_mode` only runs when the file was copied -/
def ocTargetNode (cfg : Cfg) (mode : Option FileMode) (src : Src) (prev : Option Node) : Node :=
  match src with
  | .file m d t =>
    match prev with
    | some (.file m' d' t') =>
      if cfg.onlyChanged && decide (t ≤ t') then .file m' d' t' else .file (modeRule cfg mode m) d t
    | _ => .file (modeRule cfg mode m) d t
  | _ => .dir 0

theorem ocNode_not_keeps (cfg : Cfg) (mode : Option FileMode) (m d t : Nat) (prev : Option Node)
    (h : ¬ Keeps cfg t prev) : ocNode cfg mode (.file m d t) prev = .file (modeRule cfg mode m) d t ∧
      ocTargetNode cfg mode (.file m d t) prev = .file (modeRule cfg mode m) d t := by
  unfold ocNode ocTargetNode Keeps at *
  cases prev with
  | none => exact ⟨rfl, rfl⟩
  | some n =>
    cases n with
    | dir _ => exact ⟨rfl, rfl⟩
    | link _ => exact ⟨rfl, rfl⟩
    | file m' d' t' =>
      have : (cfg.onlyChanged && decide (t ≤ t')) = false := by
        cases ho : cfg.onlyChanged with
        | false => rfl
        | true =>
          have : ¬ t ≤ t' := fun hle => h ⟨ho, m', d', t', rfl, hle⟩
          simp [this]
      simp [this]

theorem ocNode_keeps (cfg : Cfg) (mode : Option FileMode) (m d t m' d' t' : Nat)
    (ho : cfg.onlyChanged = true) (hle : t ≤ t') :
    ocNode cfg mode (.file m d t) (some (.file m' d' t')) = .file (modeRule cfg mode m') d' t' ∧
    ocTargetNode cfg mode (.file m d t) (some (.file m' d' t')) = .file m' d' t' := by
  unfold ocNode ocTargetNode
  simp [ho, hle]

theorem ocNode_not_link (cfg : Cfg) (mode : Option FileMode) (m d t : Nat) (prev : Option Node) (tg : Str) :
    ocNode cfg mode (.file m d t) prev ≠ .link tg := by
  unfold ocNode
  cases prev with
  | none => simp
  | some n => cases n <;> simp <;> split <;> simp

/-- without `--only-changed` the node is the plain `fileNode` -/
theorem ocNode_plain (cfg : Cfg) (honly : cfg.onlyChanged = false) (e : DataEntry) (prev : Option Node) :
    ocNode cfg e.mode e.src prev = fileNode cfg e := by
  unfold ocNode fileNode
  cases e.src <;> try rfl
  cases prev with
  | none => rfl
  | some n => cases n <;> simp [honly]

/-- **one file rule, with or without `--only-changed`, on any link-free tree** -/
theorem installFileTo_oc (cfg : Cfg) (hdry : cfg.dryRun = false)
    (e : DataEntry) (out outdir : Str) (fo : Option Bool) (s : St) (m d t : Nat) (hsrc : e.src = .file m d t)
    (hNL : NL s.fs) (hk : keyOf cfg.cwd out ≠ [])
    (hf : (installFileTo cfg e out outdir fo s).failed = false) :
    NL (installFileTo cfg e out outdir fo s).fs ∧
    (installFileTo cfg e out outdir fo s).fs.get (keyOf cfg.cwd out) =
      some (ocNode cfg e.mode e.src (s.fs.get (keyOf cfg.cwd out))) ∧
    ∀ k, k ≠ keyOf cfg.cwd out →
      (installFileTo cfg e out outdir fo s).fs.get k = s.fs.get k ∨
      (s.fs.get k = none ∧
        (installFileTo cfg e out outdir fo s).fs.get k = some (.dir (andNot 0o777 cfg.procUmask))) := by
  unfold installFileTo at hf ⊢
  dsimp only at hf ⊢
  rw [hsrc] at hf ⊢
  by_cases hc : (doCopyfile cfg e.path (.file m d t) out (some outdir) fo s).1.failed = true
  · simp [hc] at hf
  · have hc' : (doCopyfile cfg e.path (.file m d t) out (some outdir) fo s).1.failed = false := by simpa using hc
    simp only [hc', Bool.false_eq_true, if_false] at hf ⊢
    have nlOf : ∀ (fs' : FS) (n : Node) (hn : ∀ tg, n ≠ .link tg),
        (∀ k, k ≠ keyOf cfg.cwd out → fs'.get k = s.fs.get k ∨
          (s.fs.get k = none ∧ fs'.get k = some (.dir (andNot 0o777 cfg.procUmask)))) →
        fs'.get (keyOf cfg.cwd out) = some n → NL fs' := by
      intro fs' n hn hfr hg k tg e'
      by_cases hkk : k = keyOf cfg.cwd out
      · subst hkk; rw [hg] at e'; cases e'; exact hn tg rfl
      · rcases hfr k hkk with h | ⟨_, h⟩
        · rw [h] at e'; exact hNL k tg e'
        · rw [h] at e'; cases e'
    rcases doCopyfile_file_spec_oc cfg hdry e.path out m d t (some outdir) fo s hNL hk hc' with
      ⟨hkeep, h2, hfs⟩ | ⟨hnk, h2, _, hget, hfr⟩
    · obtain ⟨ho, m', d', t', hg, hle⟩ := hkeep
      simp only [h2, Bool.false_eq_true, if_false] at hf ⊢
      obtain ⟨a, b, _⟩ := setMode_file_spec cfg hdry _ hk e.mode
        (doCopyfile cfg e.path (.file m d t) out (some outdir) fo s).1 m' d' t' (by rw [hfs]; exact hg)
      have hnode : (setMode cfg (keyOf cfg.cwd out) e.mode (doCopyfile cfg e.path (.file m d t) out (some outdir) fo s).1).fs.get
          (keyOf cfg.cwd out) = some (ocNode cfg e.mode (.file m d t) (s.fs.get (keyOf cfg.cwd out))) := by
        rw [a, hg, (ocNode_keeps cfg e.mode m d t m' d' t' ho hle).1]
      have hframe : ∀ k, k ≠ keyOf cfg.cwd out →
          (setMode cfg (keyOf cfg.cwd out) e.mode (doCopyfile cfg e.path (.file m d t) out (some outdir) fo s).1).fs.get k =
            s.fs.get k ∨ (s.fs.get k = none ∧
          (setMode cfg (keyOf cfg.cwd out) e.mode (doCopyfile cfg e.path (.file m d t) out (some outdir) fo s).1).fs.get k =
            some (.dir (andNot 0o777 cfg.procUmask))) := fun k hkk => Or.inl (by rw [b k hkk, hfs])
      exact ⟨nlOf _ _ (ocNode_not_link cfg e.mode m d t _) hframe hnode, hnode, hframe⟩
    · simp only [h2, if_true] at hf ⊢
      obtain ⟨a, b, _⟩ := setMode_file_spec cfg hdry _ hk e.mode
        { (doCopyfile cfg e.path (.file m d t) out (some outdir) fo s).1 with didInstall := true } m d t hget
      have hnode : (setMode cfg (keyOf cfg.cwd out) e.mode
          { (doCopyfile cfg e.path (.file m d t) out (some outdir) fo s).1 with didInstall := true }).fs.get
          (keyOf cfg.cwd out) = some (ocNode cfg e.mode (.file m d t) (s.fs.get (keyOf cfg.cwd out))) := by
        rw [a, (ocNode_not_keeps cfg e.mode m d t _ hnk).1]
      have hframe : ∀ k, k ≠ keyOf cfg.cwd out →
          (setMode cfg (keyOf cfg.cwd out) e.mode
            { (doCopyfile cfg e.path (.file m d t) out (some outdir) fo s).1 with didInstall := true }).fs.get k =
            s.fs.get k ∨ (s.fs.get k = none ∧
          (setMode cfg (keyOf cfg.cwd out) e.mode
            { (doCopyfile cfg e.path (.file m d t) out (some outdir) fo s).1 with didInstall := true }).fs.get k =
            some (.dir (andNot 0o777 cfg.procUmask))) := by
        intro k hkk
        rw [b k hkk]
        rcases hfr k hkk with h | ⟨_, h1, h2'⟩
        · exact Or.inl h
        · exact Or.inr ⟨h1, h2'⟩
      exact ⟨nlOf _ _ (ocNode_not_link cfg e.mode m d t _) hframe hnode, hnode, hframe⟩

end MesonModel.Install
