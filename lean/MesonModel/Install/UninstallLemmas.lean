/-
Helper lemmas for C11: `uninstall` as a fold over the keys the log names, and the restoration theorem
for whole logs.
-/
import MesonModel.Install.ConfineLemmas

namespace MesonModel.Install

/-- the key a log line makes `do_uninstall` act on (`none`: comment line, empty line, the root) -/
def lineKey (cwd : Str) (line : Str) : Option Key :=
  if line.head? = some '#' then none
  else if line = [] then none
  else if keyOf cwd line = [] then none else some (keyOf cwd line)

/-- what `do_uninstall` does for one key: `rmdir` an empty directory, `unlink` anything else -/
def removeKey (fs : FS) (k : Key) : FS :=
  match fs.get k with
  | some (.dir _) => if fs.hasChildren k then fs else fs.del k
  | some _ => fs.del k
  | none => fs

def logKeys (cwd : Str) (log : List Str) : List Key := log.filterMap (lineKey cwd)

theorem uninstall_eq (cwd : Str) (log : List Str) (fs : FS) :
    uninstall cwd log fs = (logKeys cwd log).foldl removeKey fs := by
  unfold uninstall logKeys
  induction log generalizing fs with
  | nil => rfl
  | cons l t ih =>
    simp only [List.foldl_cons, List.filterMap_cons]
    have h : uninstallLine cwd fs l = match lineKey cwd l with | none => fs | some k => removeKey fs k := by
      unfold uninstallLine lineKey
      dsimp only
      split
      · rfl
      · split
        · rfl
        · split
          · rfl
          · unfold removeKey; rfl
    rw [ih, h]
    cases lineKey cwd l <;> rfl

theorem get_ne_none_of_mem (fs : FS) (e : Key × Node) (h : e ∈ fs) : fs.get e.1 ≠ none := by
  induction fs with
  | nil => simp at h
  | cons a t ih =>
    obtain ⟨k', n⟩ := a
    by_cases hk : k' = e.1
    · simp [FS.get, hk]
    · rcases List.mem_cons.mp h with h' | h'
      · exact absurd (by rw [h']) hk
      · simp only [FS.get, hk, if_false]; exact ih h'

theorem hasChildren_elim (fs : FS) (k : Key) (h : fs.hasChildren k = true) :
    ∃ c, c ≠ [] ∧ c.dropLast = k ∧ fs.get c ≠ none := by
  unfold FS.hasChildren at h
  rw [List.any_eq_true] at h
  obtain ⟨e, he, hc⟩ := h
  simp only [Bool.and_eq_true, decide_eq_true_eq] at hc
  exact ⟨e.1, hc.1, hc.2, get_ne_none_of_mem fs e he⟩

theorem get_del_same (fs : FS) (k : Key) : (fs.del k).get k = none := by
  induction fs with
  | nil => rfl
  | cons e t ih =>
    obtain ⟨k', n⟩ := e
    by_cases he : k' = k
    · have : FS.del ((k', n) :: t) k = FS.del t k := by simp [FS.del, he]
      rw [this]; exact ih
    · have : FS.del ((k', n) :: t) k = (k', n) :: FS.del t k := by simp [FS.del, he]
      rw [this]; simp only [FS.get, he, if_false]; exact ih

theorem removeKey_other (fs : FS) (k x : Key) (h : x ≠ k) : (removeKey fs k).get x = fs.get x := by
  unfold removeKey
  (repeat' split) <;> first | rfl | exact get_del_other fs k x h

def isDirNode : Option Node → Bool
  | some (.dir _) => true
  | _ => false

/-- children first, as far as `rmdir` needs it: a key that is a directory in `fs'` is not followed by one
of its own children -/
def ChildrenFirst (fs' : FS) (ks : List Key) : Prop :=
  ks.Pairwise (fun k c => isDirNode (fs'.get k) = false ∨ c = [] ∨ c.dropLast ≠ k)

theorem removeKey_get (fs : FS) (k x : Key) : (removeKey fs k).get x = none ∨ (removeKey fs k).get x = fs.get x := by
  by_cases h : x = k
  · subst h
    unfold removeKey
    (repeat' split) <;> first | (right; rfl) | (left; exact get_del_same fs x)
  · right; exact removeKey_other fs k x h

/-- replaying a list of keys that (i) were all absent before, (ii) cover every difference between `fs'` and
`fs`, (iii) have no pre-existing entry directly beneath them and (iv) list the children of a directory before
the directory gives back `fs` -/
theorem removeKeys_restores_aux (fs fs' : FS) (ks : List Key) (cur : FS)
    (hcur : ∀ x, cur.get x = none ∨ cur.get x = fs'.get x)
    (hfresh : ∀ k ∈ ks, fs.get k = none)
    (hsame : ∀ k, k ∉ ks → cur.get k = fs.get k)
    (hwf : ∀ c, c ≠ [] → fs.get c ≠ none → c.dropLast ∉ ks)
    (hord : ChildrenFirst fs' ks) :
    ∀ k, (ks.foldl removeKey cur).get k = fs.get k := by
  induction ks generalizing cur with
  | nil => intro k; exact hsame k (by simp)
  | cons k rest ih =>
    simp only [List.foldl_cons]
    have hord' := List.pairwise_cons.mp hord
    apply ih
    · intro x
      rcases removeKey_get cur k x with h | h
      · exact Or.inl h
      · rw [h]; exact hcur x
    · exact fun x hx => hfresh x (by simp [hx])
    · intro x hx
      by_cases hxk : x = k
      · subst hxk
        rw [hfresh x (by simp)]
        unfold removeKey
        split
        · rename_i m hdir
          split
          · rename_i hch
            exfalso
            have hdir' : isDirNode (fs'.get x) = true := by
              rcases hcur x with h | h
              · rw [h] at hdir; cases hdir
              · rw [← h, hdir]; rfl
            obtain ⟨c, hc1, hc2, hc3⟩ := hasChildren_elim cur x hch
            by_cases hcm : c ∈ x :: rest
            · rcases List.mem_cons.mp hcm with e | e
              · subst e
                have : c.dropLast.length = c.length := by rw [hc2]
                cases c with
                | nil => exact hc1 rfl
                | cons a t => simp at this
              · rcases hord'.1 c e with h | h | h
                · rw [hdir'] at h; cases h
                · exact hc1 h
                · exact h hc2
            · rw [hsame c hcm] at hc3
              exact hwf c hc1 hc3 (by rw [hc2]; simp)
          · exact get_del_same cur x
        · exact get_del_same cur x
        · rename_i hnone; exact hnone
      · rw [removeKey_other cur k x hxk]
        exact hsame x (by simp [hxk, hx])
    · exact fun c hc1 hc3 hm => hwf c hc1 hc3 (by simp [hm])
    · exact hord'.2

theorem removeKeys_restores (fs : FS) (ks : List Key) (fs' : FS)
    (hfresh : ∀ k ∈ ks, fs.get k = none)
    (hsame : ∀ k, k ∉ ks → fs'.get k = fs.get k)
    (hwf : ∀ c, c ≠ [] → fs.get c ≠ none → c.dropLast ∉ ks)
    (hord : ChildrenFirst fs' ks) :
    ∀ k, (ks.foldl removeKey fs').get k = fs.get k :=
  removeKeys_restores_aux fs fs' ks fs' (fun _ => Or.inr rfl) hfresh hsame hwf hord

end MesonModel.Install
