import MesonModel.DepPolicy.PolicyProof
/-
Repeated lookups: once the policy has answered `found d` for a request with at least one name, the
first name carries `d` as its override, `d` is found and satisfies the constraint — so the same
request in the resulting world is answered `found d` again by rule 1 of the table.
-/
namespace MesonModel.DepPolicy

variable (sat : Str → List Str → Bool)

/-- what a world must hold for the next lookup of `names` to give `d` -/
def Stable (w : World) (names wanted : List Str) (d : Dep) : Prop :=
  d.found = true ∧ satisfies sat wanted d.version = true ∧
  ∀ n0 rest, names = n0 :: rest → ∃ e, alookup n0 w.overrides = some (d, e)

/-- what the world in which the answer is given must hold -/
def Good (w : World) (names wanted : List Str) (d : Dep) : Prop :=
  d.found = true ∧ satisfies sat wanted d.version = true ∧
  ∀ n0 rest, names = n0 :: rest → (alookup n0 w.overrides = none ∨ ∃ e, alookup n0 w.overrides = some (d, e))

theorem alookup_append_none {β : Type} (k : Str) (v : β) :
    ∀ (l : List (Str × β)), alookup k l = none → alookup k (l ++ [(k, v)]) = some v := by
  intro l
  induction l with
  | nil => intro _; simp [alookup]
  | cons p rest ih =>
    intro h
    rcases p with ⟨k', v'⟩
    simp only [List.cons_append, alookup] at h ⊢
    by_cases hk : k' = k
    · simp [hk] at h
    · simp only [hk, if_false] at h ⊢
      exact ih h

theorem alookup_append_some {β : Type} (k : Str) (v : β) :
    ∀ (l l' : List (Str × β)), alookup k l = some v → alookup k (l ++ l') = some v := by
  intro l
  induction l with
  | nil => intro l' h; simp [alookup] at h
  | cons p rest ih =>
    intro l' h
    rcases p with ⟨k', v'⟩
    simp only [List.cons_append, alookup] at h ⊢
    by_cases hk : k' = k
    · simpa [hk] using h
    · simp only [hk, if_false] at h ⊢
      exact ih l' h

theorem alookup_addImplicit_some (k : Str) (v : Dep × Bool) (d : Dep) :
    ∀ (names : List Str) (ov : List (Str × Dep × Bool)), alookup k ov = some v →
      alookup k (addImplicit ov d names) = some v := by
  intro names
  induction names with
  | nil => intro ov h; simpa [addImplicit] using h
  | cons n rest ih =>
    intro ov h
    unfold addImplicit
    split
    · exact ih ov h
    · exact ih _ (alookup_append_some k v ov _ h)

theorem answer_stable (w : World) (names wanted : List Str) (d : Dep) (hg : Good sat w names wanted d) :
    Stable sat (answer w names d).2 names wanted d := by
  rcases hg with ⟨h1, h2, h3⟩
  refine ⟨h1, h2, ?_⟩
  intro n0 rest hn
  subst hn
  simp only [answer, addImplicit]
  rcases h3 n0 rest rfl with h | ⟨e, h⟩
  · simp only [h, Option.isSome_none, Bool.false_eq_true, if_false]
    exact ⟨false, alookup_addImplicit_some n0 (d, false) d rest _ (alookup_append_none n0 (d, false) _ h)⟩
  · simp only [h, Option.isSome_some, if_true]
    exact ⟨e, alookup_addImplicit_some n0 (d, e) d rest _ h⟩

theorem failure_ne_found (req : Bool) (d : Dep) : failure req ≠ .found d := by
  cases req <;> simp [failure]

theorem scanKnown_found (w : World) (wanted : List Str) (uc : Bool) (d : Dep) :
    ∀ ns, scanKnown sat w wanted uc ns = .found d → Good sat w ns wanted d := by
  intro ns
  induction ns with
  | nil => intro h; simp [scanKnown] at h
  | cons n rest ih =>
    intro h
    rw [scanKnown_cons] at h
    simp only [known1, knownOverride] at h
    cases ho : alookup n w.overrides with
    | some pr =>
      rcases pr with ⟨d0, e⟩
      simp only [ho] at h
      by_cases hc : (d0.found && satisfies sat wanted d0.version) = true
      · simp only [hc, if_true] at h
        cases h
        simp only [Bool.and_eq_true] at hc
        refine ⟨hc.1, hc.2, ?_⟩
        intro n0 rest' hn
        cases hn
        exact Or.inr ⟨e, ho⟩
      · simp [hc] at h
    | none =>
      simp only [ho] at h
      have hfirst : ∀ n0 rest', n :: rest = n0 :: rest' →
          (alookup n0 w.overrides = none ∨ ∃ e, alookup n0 w.overrides = some (d, e)) := by
        intro n0 rest' hn; cases hn; exact Or.inl ho
      cases uc with
      | false =>
        simp only [Bool.false_eq_true, if_false] at h
        have := ih h
        exact ⟨this.1, this.2.1, hfirst⟩
      | true =>
        simp only [if_true, knownCached] at h
        cases hcache : alookup n w.cache with
        | none =>
          simp only [hcache] at h
          have := ih h
          exact ⟨this.1, this.2.1, hfirst⟩
        | some dc =>
          simp only [hcache] at h
          by_cases hs : satisfies sat wanted dc.version = true
          · simp only [hs, if_true] at h
            by_cases hf : dc.found = true
            · simp only [hf, if_true] at h
              cases h
              exact ⟨hf, hs, hfirst⟩
            · simp [hf] at h
          · simp only [hs, if_false] at h
            have := ih h
            exact ⟨this.1, this.2.1, hfirst⟩

theorem scanKnown_unknown_override (w : World) (wanted : List Str) (uc : Bool) :
    ∀ ns, scanKnown sat w wanted uc ns = .unknown → ∀ n ∈ ns, alookup n w.overrides = none := by
  intro ns
  induction ns with
  | nil => intro _ n hn; cases hn
  | cons m rest ih =>
    intro h n hn
    rw [scanKnown_cons] at h
    simp only [known1, knownOverride] at h
    cases ho : alookup m w.overrides with
    | some pr =>
      rcases pr with ⟨d0, e⟩
      simp only [ho] at h
      by_cases hc : (d0.found && satisfies sat wanted d0.version) = true
      · simp [hc] at h
      · simp [hc] at h
    | none =>
      simp only [ho] at h
      have hrest : scanKnown sat w wanted uc rest = .unknown := by
        cases uc with
        | false => simpa using h
        | true =>
          simp only [if_true] at h
          cases hk : knownCached sat w wanted m with
          | found d => simp [hk] at h
          | failed => simp [hk] at h
          | unknown => simpa [hk] using h
      rcases List.mem_cons.mp hn with rfl | hn'
      · exact ho
      · exact ih hrest n hn'

theorem sysScan_ok (w : World) (wanted : List Str) :
    ∀ ns n d, sysScan sat w wanted ns = some (n, d) → d.found = true ∧ satisfies sat wanted d.version = true := by
  intro ns
  induction ns with
  | nil => intro n d h; simp [sysScan] at h
  | cons m rest ih =>
    intro n d h
    simp only [sysScan] at h
    cases hv : alookup m w.system with
    | none => simp only [hv] at h; exact ih n d h
    | some v =>
      simp only [hv] at h
      by_cases hs : satisfies sat wanted v = true
      · simp only [hs, if_true] at h
        cases h
        exact ⟨rfl, hs⟩
      · simp only [hs, if_false] at h
        exact ih n d h

theorem fromSubproject_stable (w : World) (r : Request) (s : Sub) (var : Option Str) (d : Dep) (w' : World)
    (h : fromSubproject sat w r s var = (.found d, w')) : Stable sat w' r.names r.wanted d := by
  unfold fromSubproject at h
  cases hk : scanKnown sat w r.wanted false r.names with
  | found d0 =>
    simp only [hk] at h
    have hg := scanKnown_found sat w r.wanted false d0 r.names hk
    have hd : d0 = d := by simp [answer] at h; exact h.1
    subst hd
    have := answer_stable sat w r.names r.wanted d0 hg
    rw [h] at this
    exact this
  | failed =>
    simp only [hk] at h
    exact absurd (congrArg Prod.fst h) (failure_ne_found _ _)
  | unknown =>
    simp only [hk] at h
    have hno := scanKnown_unknown_override sat w r.wanted false r.names hk
    -- every branch that is not an `answer` is a failure
    have hfail : ∀ x : POutcome × World, x = (failure r.required, w) → x = (.found d, w') → False := by
      intro x hx hx'; rw [hx] at hx'
      exact absurd (congrArg Prod.fst hx') (failure_ne_found _ _)
    split at h
    · split at h
      · rename_i d0 _
        by_cases hc : (d0.found && satisfies sat r.wanted d0.version) = true
        · simp only [hc, if_true] at h
          have hd : d0 = d := by simp [answer] at h; exact h.1
          subst hd
          simp only [Bool.and_eq_true] at hc
          have hg : Good sat w r.names r.wanted d0 := ⟨hc.1, hc.2, fun n0 rest hn => Or.inl (hno n0 (by rw [hn]; simp))⟩
          have := answer_stable sat w r.names r.wanted d0 hg
          rw [h] at this
          exact this
        · simp only [hc, if_false] at h
          exact (hfail _ rfl h).elim
      · exact (hfail _ rfl h).elim
    · exact (hfail _ rfl h).elim

theorem systemStep_stable (w : World) (r : Request) (next : POutcome × World) (d : Dep) (w' : World)
    (hno : ∀ n ∈ r.names, alookup n w.overrides = none)
    (hnext : next = (.found d, w') → Stable sat w' r.names r.wanted d)
    (h : systemStep sat w r next = (.found d, w')) : Stable sat w' r.names r.wanted d := by
  unfold systemStep at h
  cases hs : sysScan sat w r.wanted r.names with
  | none => simp only [hs] at h; exact hnext h
  | some q =>
    rcases q with ⟨n, d0⟩
    simp only [hs] at h
    have hok := sysScan_ok sat w r.wanted r.names n d0 hs
    have hd : d0 = d := by simp [answer] at h; exact h.1
    subst hd
    have hg : Good sat { w with cache := cachePut w.cache n d0 } r.names r.wanted d0 :=
      ⟨hok.1, hok.2, fun n0 rest hn => Or.inl (hno n0 (by rw [hn]; simp))⟩
    have := answer_stable sat _ r.names r.wanted d0 hg
    rw [h] at this
    exact this

theorem fallbackStep_stable (w : World) (r : Request) (p : Plan) (sp : Str) (var : Option Str) (d : Dep) (w' : World)
    (h : fallbackStep sat w r p sp var = (.found d, w')) : Stable sat w' r.names r.wanted d := by
  unfold fallbackStep at h
  have hfail : ∀ (x : World), (failure r.required, x) = (POutcome.found d, w') → False := by
    intro x hx
    exact absurd (congrArg Prod.fst hx) (failure_ne_found _ _)
  split at h
  · exact (hfail _ h).elim
  · split at h
    · exact (hfail _ h).elim
    · split at h
      · exact (hfail _ h).elim
      · exact fromSubproject_stable sat _ r _ var d w' h
      · split at h
        · exact (hfail _ h).elim
        · split at h
          · exact fromSubproject_stable sat _ r _ var d w' h
          · exact (hfail _ h).elim

theorem decide_stable (w : World) (r : Request) (p : Plan) (d : Dep) (w' : World)
    (h : decide sat w r p = (.found d, w')) : Stable sat w' r.names r.wanted d := by
  unfold decide at h
  simp only [] at h
  cases hk : scanKnown sat w r.wanted (!(p.forced && p.fallback.isSome)) r.names with
  | found d0 =>
    simp only [hk] at h
    have hg := scanKnown_found sat w r.wanted _ d0 r.names hk
    have hd : d0 = d := by simp [answer] at h; exact h.1
    subst hd
    have := answer_stable sat w r.names r.wanted d0 hg
    rw [h] at this
    exact this
  | failed =>
    simp only [hk] at h
    exact absurd (congrArg Prod.fst h) (failure_ne_found _ _)
  | unknown =>
    simp only [hk] at h
    have hno := scanKnown_unknown_override sat w r.wanted _ r.names hk
    have hfailnext : (failure r.required, w) = (POutcome.found d, w') → Stable sat w' r.names r.wanted d := by
      intro hx
      exact absurd (congrArg Prod.fst hx) (failure_ne_found _ _)
    split at h
    · exact systemStep_stable sat w r _ d w' hno hfailnext h
    · split at h
      · exact fromSubproject_stable sat w r _ _ d w' h
      · split at h
        · exact systemStep_stable sat w r _ d w' hno (fallbackStep_stable sat w r p _ _ d w') h
        · exact fallbackStep_stable sat w r p _ _ d w' h

/-- the policy answers a `Stable` world with the same dependency -/
theorem policy_of_stable (w : World) (r : Request) (d : Dep) (n0 : Str) (rest : List Str) (hn : r.names = n0 :: rest)
    (hargs : (!namesOk r.names || !fallbackArgOk r) = false)
    (hs : Stable sat w r.names r.wanted d) : (policy sat w r).1 = .found d := by
  rcases hs with ⟨h1, h2, h3⟩
  rcases h3 n0 rest hn with ⟨e, ho⟩
  unfold policy
  simp only [hargs, Bool.false_eq_true, if_false]
  unfold decide
  simp only [hn]
  rw [scanKnown_cons]
  simp only [known1, knownOverride, ho, h1, h2, Bool.and_self, if_true]
  rfl

/-- **Repeated lookups agree** (policy side) -/
theorem policy_repeat (w : World) (r : Request) (d : Dep) (hne : r.names ≠ [])
    (h : (policy sat w r).1 = .found d) : (policy sat (policy sat w r).2 r).1 = .found d := by
  have hargs : (!namesOk r.names || !fallbackArgOk r) = false := by
    cases hb : (!namesOk r.names || !fallbackArgOk r) with
    | false => rfl
    | true => simp [policy, hb] at h
  have hdec : policy sat w r = decide sat w r (plan w r) := by
    simp [policy, hargs]
  have hst : Stable sat (policy sat w r).2 r.names r.wanted d := by
    rw [hdec] at h ⊢
    exact decide_stable sat w r (plan w r) d _ (by rw [← h])
  cases hnames : r.names with
  | nil => exact absurd hnames hne
  | cons n0 rest => exact policy_of_stable sat _ r d n0 rest hnames hargs hst

end MesonModel.DepPolicy
