import MesonModel.DepPolicy.Model
/-
Effect-trace lemmas for the lookup model: which candidate functions can consult the system / the
dependency cache, and which can configure a subproject.
-/
namespace MesonModel.DepPolicy

/-- the effect touches the system: `find_external_dependency` or the cache of system dependencies -/
def Effect.isSystem : Effect → Bool
  | .system _ => true
  | .cacheGet _ => true
  | _ => false

/-- the effect enters `Interpreter.do_subproject` -/
def Effect.isSubproject : Effect → Bool
  | .doSubproject _ => true
  | .configure _ => true
  | _ => false

def Step.trace : Step → List Effect
  | .cont _ t => t
  | .hit _ _ t => t
  | .raise _ _ t => t

def Cand.isSystem : Cand → Bool
  | .system _ => true
  | _ => false

def Cand.isSubproject : Cand → Bool
  | .subproject _ => true
  | _ => false

variable (sat : Str → List Str → Bool)

def Forced (h : Holder) : Prop := h.forcefallback = true ∧ truthy h.spName = true

theorem getCachedDep_forced (h : Holder) (hf : Forced h) (w : World) (wanted : List Str) (n : Str) :
    (getCachedDep sat h w wanted n).2 = [] := by
  unfold getCachedDep
  split
  · repeat (first | split | rfl)
  · simp [hf.1, hf.2]

theorem firstCached_forced (h : Holder) (hf : Forced h) (w : World) (wanted : List Str) :
    ∀ ns, (firstCached sat h w wanted ns).2 = [] := by
  intro ns
  induction ns with
  | nil => rfl
  | cons n rest ih =>
    unfold firstCached
    have hg := getCachedDep_forced sat h hf w wanted n
    generalize getCachedDep sat h w wanted n = g at hg
    rcases g with ⟨o, tr⟩
    simp only at hg
    subst hg
    cases o with
    | some d => rfl
    | none => simpa using ih

theorem getSubprojectDep_forced (h : Holder) (hf : Forced h) (w : World) (wanted : List Str) (sp : Str)
    (v : Option Str) : (getSubprojectDep sat h w wanted sp v).2 = [] := by
  unfold getSubprojectDep
  split
  · rfl
  · have hc := firstCached_forced sat h hf w wanted h.names
    generalize firstCached sat h w wanted h.names = g at hc
    rcases g with ⟨o, tr⟩
    simp only at hc
    subst hc
    cases o with
    | some d => rfl
    | none => simp only []; repeat (first | split | rfl)

theorem doSubproject_noSystem (w : World) (sp : Str) (req : Bool) :
    ∀ e ∈ (doSubproject w sp req).2, e.isSystem = false := by
  unfold doSubproject
  repeat (first | split | (intro e he; simp at he; rcases he with he | he <;> subst he <;> rfl)
                | (intro e he; simp at he; subst he; rfl))

/-- under forced fallback no candidate other than `_do_dependency` touches the system -/
theorem runCand_forced (h : Holder) (hf : Forced h) (wanted : List Str) (req : Bool) (w : World) (c : Cand)
    (hc : c.isSystem = false) : ∀ e ∈ (runCand sat h wanted req w c).trace, e.isSystem = false := by
  cases c with
  | system n => simp [Cand.isSystem] at hc
  | cache n =>
    simp only [runCand]
    have hg := getCachedDep_forced sat h hf w wanted n
    generalize getCachedDep sat h w wanted n = g at hg
    rcases g with ⟨o, tr⟩
    simp only at hg
    subst hg
    cases o <;> simp [Step.trace]
  | existing sp =>
    simp only [runCand]
    split
    · have hg := getSubprojectDep_forced sat h hf w wanted sp h.spVar
      generalize getSubprojectDep sat h w wanted sp h.spVar = g at hg
      rcases g with ⟨o, tr⟩
      simp only at hg
      subst hg
      cases o <;> simp [Step.trace]
    · simp [Step.trace]
  | subproject sp =>
    simp only [runCand]
    split
    · simp [Step.trace]
    · have hd := doSubproject_noSystem w sp req
      generalize doSubproject w sp req = g at hd
      rcases g with ⟨r, tr⟩
      cases r with
      | error k => simpa [Step.trace] using hd
      | ok w' =>
        simp only []
        have hg := getSubprojectDep_forced sat h hf w' wanted sp h.spVar
        generalize getSubprojectDep sat h w' wanted sp h.spVar = g2 at hg
        rcases g2 with ⟨o, tr2⟩
        simp only at hg
        subst hg
        cases o <;> simpa [Step.trace] using hd

theorem loop_forced (h : Holder) (hf : Forced h) (wanted : List Str) (required : Bool) :
    ∀ cands w tr, (∀ c ∈ cands, c.isSystem = false) → (∀ e ∈ tr, e.isSystem = false) →
      ∀ e ∈ (loop sat h wanted required cands w tr).trace, e.isSystem = false := by
  intro cands
  induction cands with
  | nil => intro w tr _ htr; simpa [loop] using htr
  | cons c rest ih =>
    intro w tr hc htr
    have hrun := runCand_forced sat h hf wanted (required && rest.isEmpty) w c (hc c (by simp))
    unfold loop
    simp only []
    generalize runCand sat h wanted (required && rest.isEmpty) w c = st at hrun
    have happ : ∀ t, (∀ e ∈ t, Effect.isSystem e = false) → ∀ e ∈ tr ++ t, Effect.isSystem e = false := by
      intro t ht e he
      simp at he
      rcases he with he | he
      · exact htr e he
      · exact ht e he
    cases st with
    | raise k w' t => simpa using happ t (by simpa [Step.trace] using hrun)
    | hit d w' t =>
      simp only []
      have := happ t (by simpa [Step.trace] using hrun)
      repeat (first | split | (simpa using this))
    | cont w' t =>
      simp only []
      have := happ t (by simpa [Step.trace] using hrun)
      split
      · simpa using this
      · exact ih w' (tr ++ t) (fun c hc' => hc c (by simp [hc'])) this

theorem getCandidates_forced (h : Holder) (hf : Forced h) : ∀ c ∈ getCandidates h, c.isSystem = false := by
  intro c hc
  unfold getCandidates at hc
  simp [hf.1, hf.2] at hc
  rcases hc with ⟨n, _, rfl⟩ | rfl | rfl <;> rfl

/-! ### nofallback: nothing enters do_subproject -/

def NoFallback (h : Holder) : Prop := h.nofallback = true ∧ h.forcefallback = false

theorem getCachedDep_noSub (h : Holder) (w : World) (wanted : List Str) (n : Str) :
    ∀ e ∈ (getCachedDep sat h w wanted n).2, e.isSubproject = false := by
  unfold getCachedDep
  repeat (first | split | (intro e he; simp at he; try (subst he; rfl)))

theorem firstCached_noSub (h : Holder) (w : World) (wanted : List Str) :
    ∀ ns, ∀ e ∈ (firstCached sat h w wanted ns).2, e.isSubproject = false := by
  intro ns
  induction ns with
  | nil => intro e he; simp [firstCached] at he
  | cons n rest ih =>
    unfold firstCached
    have hg := getCachedDep_noSub sat h w wanted n
    generalize getCachedDep sat h w wanted n = g at hg
    rcases g with ⟨o, tr⟩
    cases o with
    | some d => simpa using hg
    | none =>
      intro e he
      simp at he
      rcases he with he | he
      · exact hg e he
      · exact ih e he

theorem getSubprojectDep_noSub (h : Holder) (w : World) (wanted : List Str) (sp : Str) (v : Option Str) :
    ∀ e ∈ (getSubprojectDep sat h w wanted sp v).2, e.isSubproject = false := by
  unfold getSubprojectDep
  split
  · intro e he; simp at he
  · have hc := firstCached_noSub sat h w wanted h.names
    generalize firstCached sat h w wanted h.names = g at hc
    rcases g with ⟨o, tr⟩
    cases o with
    | some d => simpa using hc
    | none => simp only []; repeat (first | split | (simpa using hc))

theorem runCand_nofallback (h : Holder) (hn : NoFallback h) (wanted : List Str) (req : Bool) (w : World) (c : Cand) :
    ∀ e ∈ (runCand sat h wanted req w c).trace, e.isSubproject = false := by
  cases c with
  | system n =>
    simp only [runCand]
    repeat (first | split | (intro e he; simp [Step.trace] at he; subst he; rfl))
  | cache n =>
    simp only [runCand]
    have hg := getCachedDep_noSub sat h w wanted n
    generalize getCachedDep sat h w wanted n = g at hg
    rcases g with ⟨o, tr⟩
    cases o <;> simpa [Step.trace] using hg
  | existing sp =>
    simp only [runCand]
    split
    · have hg := getSubprojectDep_noSub sat h w wanted sp h.spVar
      generalize getSubprojectDep sat h w wanted sp h.spVar = g at hg
      rcases g with ⟨o, tr⟩
      cases o <;> simpa [Step.trace] using hg
    · simp [Step.trace]
  | subproject sp =>
    simp only [runCand]
    simp [hn.1, hn.2, Step.trace]

theorem loop_nofallback (h : Holder) (hn : NoFallback h) (wanted : List Str) (required : Bool) :
    ∀ cands w tr, (∀ e ∈ tr, e.isSubproject = false) →
      ∀ e ∈ (loop sat h wanted required cands w tr).trace, e.isSubproject = false := by
  intro cands
  induction cands with
  | nil => intro w tr htr; simpa [loop] using htr
  | cons c rest ih =>
    intro w tr htr
    have hrun := runCand_nofallback sat h hn wanted (required && rest.isEmpty) w c
    unfold loop
    simp only []
    generalize runCand sat h wanted (required && rest.isEmpty) w c = st at hrun
    have happ : ∀ t, (∀ e ∈ t, Effect.isSubproject e = false) → ∀ e ∈ tr ++ t, Effect.isSubproject e = false := by
      intro t ht e he
      simp at he
      rcases he with he | he
      · exact htr e he
      · exact ht e he
    cases st with
    | raise k w' t => simpa using happ t (by simpa [Step.trace] using hrun)
    | hit d w' t =>
      simp only []
      have := happ t (by simpa [Step.trace] using hrun)
      repeat (first | split | (simpa using this))
    | cont w' t =>
      simp only []
      have := happ t (by simpa [Step.trace] using hrun)
      split
      · simpa using this
      · exact ih w' (tr ++ t) this

end MesonModel.DepPolicy
