import MesonModel.Py.Str
import MesonModel.DepPolicy.Model
import MesonModel.Generated.WrapTypeTable
/-
Model of the wrap-*file* layer of `mesonbuild/wrap/wrap.py`:

  `configparser.ConfigParser(interpolation=None).read` (CPython 3.12 `RawConfigParser._read`, on the line
  grammar without continuation lines), `PackageDefinition._parse_wrap`, `PackageDefinition.__init__`,
  `from_wrap_file` (with `[wrap-redirect]`), `from_directory`, `parse_provide_section`,
  `Resolver.load_wraps`, `add_wrap`, `load_wrapdb` (tables only), `merge_wraps`, `load_and_merge`,
  `find_dep_provider`, `get_varname`, `find_program_provider`, `get_directory`.

The file system is a finite map from paths (lists of components below the top `subprojects` directory) to
file texts, plus the listing `os.walk` gave for each loaded directory *in the order it gave it* (the order
is observable: see `loadFiles`).  Python dicts are association lists with in-place update (`dset`).
Errors the code raises are constructors of `WErr`.  Core Lean only.
-/
namespace MesonModel.DepPolicy.WrapFile
open MesonModel.Py MesonModel.DepPolicy

/-! ### strings, dicts -/

/-- `s.split(c)` for a one-character separator: always at least one item -/
def splitOn (c : Char) : Str → List Str
  | [] => [[]]
  | x :: xs =>
    if x = c then [] :: splitOn c xs
    else match splitOn c xs with
      | h :: t => (x :: h) :: t
      | [] => [[x]]

def endsWith (s suf : Str) : Bool := suf.reverse.isPrefixOf s.reverse

/-- `d[k] = v` on an insertion-ordered dict -/
def dset {β : Type} (k : Str) (v : β) : List (Str × β) → List (Str × β)
  | [] => [(k, v)]
  | (k', v') :: rest => if k' = k then (k, v) :: rest else (k', v') :: dset k v rest

/-- `del d[k]` (the caller checks presence) -/
def ddel {β : Type} (k : Str) : List (Str × β) → List (Str × β)
  | [] => []
  | (k', v') :: rest => if k' = k then rest else (k', v') :: ddel k rest

def keys {β : Type} (d : List (Str × β)) : List Str := d.map Prod.fst

/-! ### 1. configparser -/

structure Ini where
  defaults : List (Str × Str)
  sections : List (Str × List (Str × Str))
deriving DecidableEq, Repr

inductive WErr
  | parse             -- configparser.Error (any) → WrapException 'Failed to parse'
  | missingSections | badFirstSection | unknownType
  | keyError          -- a KeyError escapes (not a WrapException): `[wrap-redirect]` without `filename`; `del` in merge_wraps
  | redirectDotDot | redirectForm | redirectSuffix | redirectMissing
  | directoryPath | diffAbsolute | diffDotDot
  | providesSection | emptyVarname
  | multipleDeps | multiplePrograms
  | unsupported       -- outside the modelled grammar (continuation line, absolute redirect target)
  | fuel
deriving DecidableEq, Repr

/-- a `KeyError` is not a `WrapException`; everything else the code raises here is -/
def WErr.isWrapException : WErr → Bool
  | .keyError => false
  | .unsupported => false
  | .fuel => false
  | _ => true

inductive Cur | none | defaults | sect (name : Str)
deriving DecidableEq, Repr

/-- `SECTCRE.match(value)`: `\[(?P<header>.+)\]` — greedy: up to the *last* `]` -/
def sectHeader (v : Str) : Option Str :=
  match v with
  | '[' :: rest =>
    match rest.reverse.dropWhile (fun c => c != ']') with
    | _ :: revHeader => if revHeader.isEmpty then none else some revHeader.reverse
    | [] => none
  | _ => none

def isDelim (c : Char) : Bool := c == '=' || c == ':'

/-- `_optcre.match(value)`: option = text before the first `=`/`:` (trailing blanks dropped), value = the rest -/
def splitOpt (v : Str) : Option (Str × Str) :=
  let pre := v.takeWhile (fun c => !isDelim c)
  match v.dropWhile (fun c => !isDelim c) with
  | [] => none
  | _ :: rest => some (rstrip pre, strip rest)

def defaultSect : Str := "DEFAULT".toList

/-- one line of `_read` -/
def readLine (ini : Ini) (cur : Cur) (line : Str) : Except WErr (Ini × Cur) :=
  let value := strip line
  if value.isEmpty then .ok (ini, cur)
  else if startsWith value ['#'] || startsWith value [';'] then .ok (ini, cur)
  else if (match line with | c :: _ => isSpace c | [] => false) then .error .unsupported
  else
    match sectHeader value with
    | some name =>
      if (alookup name ini.sections).isSome then .error .parse            -- DuplicateSectionError
      else if name = defaultSect then .ok (ini, .defaults)
      else .ok ({ ini with sections := ini.sections ++ [(name, [])] }, .sect name)
    | none =>
      match cur with
      | .none => .error .parse                                           -- MissingSectionHeaderError
      | .defaults =>
        match splitOpt value with
        | none => .error .parse                                          -- ParsingError
        | some (o, v) =>
          if o.isEmpty then .error .parse
          else if (alookup (lower o) ini.defaults).isSome then .error .parse   -- DuplicateOptionError
          else .ok ({ ini with defaults := ini.defaults ++ [(lower o, v)] }, cur)
      | .sect name =>
        match splitOpt value with
        | none => .error .parse
        | some (o, v) =>
          if o.isEmpty then .error .parse
          else
            let body := (alookup name ini.sections).getD []
            if (alookup (lower o) body).isSome then .error .parse
            else .ok ({ ini with sections := dset name (body ++ [(lower o, v)]) ini.sections }, cur)

def readLines : List Str → Ini → Cur → Except WErr Ini
  | [], ini, _ => .ok ini
  | l :: rest, ini, cur =>
    match readLine ini cur l with
    | .error e => .error e
    | .ok (ini', cur') => readLines rest ini' cur'

def parseIni (text : Str) : Except WErr Ini := readLines (splitOn '\n' text) ⟨[], []⟩ .none

/-- `config[section].items()`: the section's options, then the `DEFAULT` options it does not set -/
def items (ini : Ini) (body : List (Str × Str)) : List (Str × Str) :=
  body ++ ini.defaults.filter (fun p => (alookup p.1 body).isNone)

/-! ### 2. `PackageDefinition` -/

structure PkgDef where
  name : Str
  type : Option Str                       -- `WrapType` value; `none` for a bare directory
  directory : Str
  providedDeps : List (Str × Option Str)  -- dependency name ↦ variable name or None
  providedPrograms : List Str
  redirected : Bool
deriving DecidableEq, Repr

def s (x : String) : Str := x.toList

/-- `_parse_wrap` after `config.read` -/
def parseWrap (text : Str) : Except WErr (Ini × Str × List (Str × Str)) :=
  match parseIni text with
  | .error e => .error e
  | .ok ini =>
    match ini.sections with
    | [] => .error .missingSections
    | (sect, body) :: _ =>
      if !startsWith sect (s "wrap-") then .error .badFirstSection
      else
        let t := sect.drop 5
        if !MesonModel.Generated.WrapTypeTable.wrapTypes.contains t then .error .unknownType
        else .ok (ini, t, items ini body)

/-- the `diff_files` loop of `__init__` -/
def checkDiffFiles : List Str → Option WErr
  | [] => none
  | f :: rest =>
    let p := strip f
    if startsWith p ['/'] then some .diffAbsolute
    else if (splitOn '/' p).contains (s "..") then some .diffDotDot
    else checkDiffFiles rest

/-- `PackageDefinition.__init__` -/
def mkPkg (name : Str) (type : Option Str) (values : List (Str × Str)) : Except WErr PkgDef :=
  let directory := (alookup (s "directory") values).getD name
  if directory.contains '/' then .error .directoryPath
  else
    match (match alookup (s "diff_files") values with
           | some v => checkDiffFiles (splitOn ',' v)
           | none => none) with
    | some e => .error e
    | none => .ok { name := name, type := type, directory := directory,
                    providedDeps := [(lower name, none)], providedPrograms := [], redirected := false }

/-- `dependency_names = a, b`: `provided_deps.update({n.strip().lower(): None for n in v.split(',')})` -/
def addDepNames (deps : List (Str × Option Str)) : List Str → List (Str × Option Str)
  | [] => deps
  | n :: rest => addDepNames (dset (lower (strip n)) none deps) rest

/-- the loop of `parse_provide_section` -/
def provideItems : List (Str × Str) → PkgDef → Except WErr PkgDef
  | [], p => .ok p
  | (k, v) :: rest, p =>
    if k = s "dependency_names" then
      provideItems rest { p with providedDeps := addDepNames p.providedDeps (splitOn ',' v) }
    else if k = s "program_names" then
      provideItems rest { p with providedPrograms := p.providedPrograms ++ (splitOn ',' v).map strip }
    else if v.isEmpty then .error .emptyVarname
    else provideItems rest { p with providedDeps := dset k (some v) p.providedDeps }

def parseProvideSection (ini : Ini) (p : PkgDef) : Except WErr PkgDef :=
  if (alookup (s "provides") ini.sections).isSome then .error .providesSection
  else match alookup (s "provide") ini.sections with
    | some body => provideItems (items ini body) p
    | none => .ok p

/-! ### 3. the file system and `from_wrap_file` -/

abbrev Path := List Str
abbrev FS := List (Path × Str)

def readFile (fs : FS) (p : Path) : Option Str :=
  match fs.find? (fun e => e.1 == p) with
  | some e => some e.2
  | none => none

/-- `Path(x).parts` for a relative POSIX path: empty and `.` components vanish -/
def pathParts (f : Str) : List Str := (splitOn '/' f).filter (fun c => !c.isEmpty && c != ['.'])

/-- the loop over `fname.parts` of the `[wrap-redirect]` branch -/
def checkRedirectParts : Nat → List Str → Option WErr
  | _, [] => none
  | i, p :: rest =>
    if i % 2 == 0 then
      if p = s ".." then some .redirectDotDot else checkRedirectParts (i + 1) rest
    else
      if p ≠ s "subprojects" then some .redirectForm else checkRedirectParts (i + 1) rest

/-- `Path.suffix == '.wrap'` (3.12: the dot may not be the first character of the name) -/
def hasWrapSuffix (name : Str) : Bool := endsWith name (s ".wrap") && name.length > 5

/-- `PackageDefinition.from_wrap_file(os.path.join(dir, fname))` -/
def fromWrapFile (fs : FS) : Nat → Path → Str → Except WErr PkgDef
  | 0, _, _ => .error .fuel
  | fuel + 1, dir, fname =>
    match readFile fs (dir ++ [fname]) with
    | none => .error .missingSections          -- `config.read` ignores a file it cannot open
    | some text =>
      match parseWrap text with
      | .error e => .error e
      | .ok (ini, type, values) =>
        if type = s "redirect" then
          match alookup (s "filename") values with
          | none => .error .keyError
          | some f =>
            if startsWith f ['/'] then .error .unsupported
            else
              let parts := pathParts f
              match checkRedirectParts 0 parts with
              | some e => .error e
              | none =>
                if !hasWrapSuffix (parts.getLast?.getD []) then .error .redirectSuffix
                else if (readFile fs (dir ++ parts)).isNone then .error .redirectMissing
                else
                  match fromWrapFile fs fuel (dir ++ parts.dropLast) (parts.getLast?.getD []) with
                  | .error e => .error e
                  | .ok w => .ok { w with redirected := true }
        else
          match mkPkg (fname.take (fname.length - 5)) (some type) values with
          | .error e => .error e
          | .ok p => parseProvideSection ini p

/-- `PackageDefinition.from_directory` -/
def dirPkg (name : Str) : PkgDef :=
  { name := name, type := none, directory := name, providedDeps := [(lower name, none)],
    providedPrograms := [], redirected := false }

/-! ### 4. `Resolver` -/

structure Resolver where
  wraps : List (Str × PkgDef)
  providedDeps : List (Str × PkgDef)
  providedPrograms : List (Str × PkgDef)
  wrapdbDeps : List (Str × Str)
  wrapdbProgs : List (Str × Str)
  loadedDirs : List Path
deriving DecidableEq, Repr

/-- the `*.wrap` loop of `load_wraps`: `self.wraps[wrap.name] = wrap` (a later file whose wrap has the same
name — possible through `[wrap-redirect]` — replaces the earlier one *in place*) -/
def loadFiles (fs : FS) (fuel : Nat) (base : Path) : List Str → List (Str × PkgDef) → Except WErr (List (Str × PkgDef))
  | [], acc => .ok acc
  | f :: rest, acc =>
    if !endsWith f (s ".wrap") then loadFiles fs fuel base rest acc
    else match fromWrapFile fs fuel base f with
      | .error e => .error e
      | .ok w => loadFiles fs fuel base rest (dset w.name w acc)

def ignoreDirs (wraps : List (Str × PkgDef)) : List Str :=
  MesonModel.Generated.WrapTypeTable.ignoreDirs ++ wraps.flatMap (fun e => [e.2.directory, e.2.name])

/-- the directories loop of `load_wraps` (the ignore set is computed once, before the loop) -/
def loadDirs (ignore : List Str) : List Str → List (Str × PkgDef) → List (Str × PkgDef)
  | [], acc => acc
  | d :: rest, acc => if ignore.contains d then loadDirs ignore rest acc else loadDirs ignore rest (dset d (dirPkg d) acc)

/-- first loop of `add_wrap` -/
def addDeps (w : PkgDef) (ignoreDups : Bool) : List Str → List (Str × PkgDef) → Except WErr (List (Str × PkgDef))
  | [], t => .ok t
  | k :: rest, t =>
    match alookup k t with
    | none => addDeps w ignoreDups rest (t ++ [(k, w)])
    | some _ => if ignoreDups then addDeps w ignoreDups rest t else .error .multipleDeps

/-- second loop of `add_wrap` -/
def addProgs (w : PkgDef) (ignoreDups : Bool) : List Str → List (Str × PkgDef) → Except WErr (List (Str × PkgDef))
  | [], t => .ok t
  | k :: rest, t =>
    match alookup k t with
    | none => addProgs w ignoreDups rest (t ++ [(k, w)])
    | some _ => if ignoreDups then addProgs w ignoreDups rest t else .error .multiplePrograms

/-- the two tables of `Resolver` -/
structure Tables where
  deps : List (Str × PkgDef)
  progs : List (Str × PkgDef)
deriving DecidableEq, Repr

/-- `add_wrap` -/
def addWrap (w : PkgDef) (ignoreDups : Bool) (t : Tables) : Except WErr Tables :=
  match addDeps w ignoreDups (keys w.providedDeps) t.deps with
  | .error e => .error e
  | .ok d =>
    match addProgs w ignoreDups w.providedPrograms t.progs with
    | .error e => .error e
    | .ok p => .ok ⟨d, p⟩

/-- `for wrap in self.wraps.values(): self.add_wrap(wrap)` -/
def addAll : List PkgDef → Tables → Except WErr Tables
  | [], t => .ok t
  | w :: rest, t =>
    match addWrap w false t with
    | .error e => .error e
    | .ok t' => addAll rest t'

/-- `load_wrapdb`: `wrapdb.json` as a list of (name, dependency_names, program_names); `dict.update` = last wins -/
def wrapdbTable (sel : Str × List Str × List Str → List Str) : List (Str × List Str × List Str) → List (Str × Str) → List (Str × Str)
  | [], t => t
  | e :: rest, t => wrapdbTable sel rest ((sel e).foldl (fun acc i => dset i e.1 acc) t)

/-- `Resolver.__post_init__` for the directory `base` whose listing is `files`, `dirs` (no `Cargo.lock`) -/
def loadWraps (fs : FS) (fuel : Nat) (base : Path) (files dirs : List Str) (wrapdb : List (Str × List Str × List Str)) :
    Except WErr Resolver :=
  match loadFiles fs fuel base files [] with
  | .error e => .error e
  | .ok ws =>
    let ws := loadDirs (ignoreDirs ws) dirs ws
    match addAll (ws.map Prod.snd) ⟨[], []⟩ with
    | .error e => .error e
    | .ok t => .ok { wraps := ws, providedDeps := t.deps, providedPrograms := t.progs,
                     wrapdbDeps := wrapdbTable (fun e => e.2.1) wrapdb [],
                     wrapdbProgs := wrapdbTable (fun e => e.2.2) wrapdb [],
                     loadedDirs := [base] }

/-- one iteration of `merge_wraps` -/
def mergeOne (r : Resolver) (k : Str) (v : PkgDef) : Except WErr Resolver :=
  let upgraded : Except WErr Resolver :=
    match alookup v.directory r.wraps with
    | some prev =>
      if prev.type.isNone && v.type.isSome then
        if (alookup (lower v.directory) r.providedDeps).isNone then .error .keyError
        else .ok { r with wraps := ddel v.directory r.wraps, providedDeps := ddel (lower v.directory) r.providedDeps }
      else .ok r
    | none => .ok r
  match upgraded with
  | .error e => .error e
  | .ok r =>
    if (alookup k r.wraps).isSome then .ok r
    else
      match addWrap v true ⟨r.providedDeps, r.providedPrograms⟩ with
      | .error e => .error e
      | .ok t => .ok { r with wraps := r.wraps ++ [(k, v)], providedDeps := t.deps, providedPrograms := t.progs }

/-- `merge_wraps` -/
def mergeWraps : List (Str × PkgDef) → Resolver → Except WErr Resolver
  | [], r => .ok r
  | (k, v) :: rest, r =>
    match mergeOne r k v with
    | .error e => .error e
    | .ok r' => mergeWraps rest r'

/-- `load_and_merge(subdir, …)`: the wraps of a subproject's own `subprojects` directory are merged in,
existing entries win -/
def loadAndMerge (fs : FS) (fuel : Nat) (nopromote : Bool) (r : Resolver) (base : Path) (files dirs : List Str)
    (wrapdb : List (Str × List Str × List Str)) : Except WErr Resolver :=
  if nopromote || r.loadedDirs.contains base then .ok r
  else
    match loadWraps fs fuel base files dirs wrapdb with
    | .error e => .error e
    | .ok other =>
      match mergeWraps other.wraps r with
      | .error e => .error e
      | .ok r' => .ok { r' with loadedDirs := r'.loadedDirs ++ [base] }

/-- `dict.get(k)` on a dict whose values may be `None` -/
def getVar (k : Str) (d : List (Str × Option Str)) : Option Str :=
  match alookup k d with
  | some v => v
  | none => none

/-- `Resolver.find_dep_provider` -/
def findDepProvider (r : Resolver) (name : Str) : Option Str × Option Str :=
  let p := lower name
  match alookup p r.providedDeps with
  | some w => (some w.name, getVar p w.providedDeps)
  | none => (alookup p r.wrapdbDeps, none)

/-- `Resolver.get_varname` -/
def getVarname (r : Resolver) (sp depname : Str) : Option Str :=
  match alookup sp r.wraps with
  | some w => getVar depname w.providedDeps
  | none => none

/-- `Resolver.find_program_provider` (names that are `File`s are skipped by the caller of the model) -/
def findProgramProvider (r : Resolver) : List Str → Option Str
  | [] => none
  | n :: rest =>
    match alookup n r.providedPrograms with
    | some w => some w.name
    | none =>
      match alookup n r.wrapdbProgs with
      | some (c :: cs) => some (c :: cs)
      | _ => findProgramProvider r rest

/-- `Resolver.get_directory` -/
def getDirectory (r : Resolver) (name : Str) : Option Str :=
  match alookup name r.wraps with
  | some w => if w.redirected then none else some w.directory
  | none => some name

/-- the `[provide]` tables as the world of `DepPolicy.lookup` sees them (`World.provides`) -/
def providesOf (r : Resolver) : List (Str × Str × Option Str) :=
  r.providedDeps.map (fun e => (e.1, e.2.name, getVar e.1 e.2.providedDeps))

end MesonModel.DepPolicy.WrapFile
