import MesonModel.DepPolicy.Wrap
/-
Trace invariants of the wrap step machine: for a predicate `P` on events that holds of every event a
function can emit (under the stated side conditions), `All P` is preserved from the state a function
starts in to every state it can end in — normal or exceptional, under every fault function.
-/
namespace MesonModel.DepPolicy.Wrap

def R.st {α : Type} : R α → St
  | .ok _ s => s
  | .err _ s => s

/-- every event of the trace satisfies `P` -/
def AllEv (P : Event → Prop) (tr : List Event) : Prop := ∀ e ∈ tr, P e

theorem allEv_log {P : Event → Prop} {s : St} {e : Event} (h : AllEv P s.trace) (he : P e) :
    AllEv P (s.log e).trace := by
  intro x hx
  simp [St.log] at hx
  rcases hx with hx | hx
  · exact h x hx
  · subst hx; exact he

/-- the digest recorded for `w` admits `sha` -/
def HashOk (cfg : Cfg) (w : What) (sha : Hash) : Prop := ∀ h, (fileCfg cfg w).hash = some h → sha = h

/-- the hash gate as an event predicate -/
def GateEv (cfg : Cfg) : Event → Prop
  | .used w sha => HashOk cfg w sha
  | .cacheStore w sha => HashOk cfg w sha
  | .fetch _ _ => cfg.nodownload = false      -- a download attempt happens only when downloading is allowed
  | _ => True

@[simp] theorem setCache_trace (s : St) (w : What) (c : Content) : (s.setCache w c).trace = s.trace := by
  cases w <;> rfl

@[simp] theorem extract_trace (s : St) (c : Content) : (s.extract c).trace = s.trace := rfl

/-! ### fetchLoop: only `fetch` events -/

theorem fetchLoop_gate (cfg : Cfg) (hnd : cfg.nodownload = false) (flt : Faults) (w : What) (fb : Bool) (url : Fetch) :
    ∀ n i s, AllEv (GateEv cfg) s.trace → AllEv (GateEv cfg) (fetchLoop flt w fb url n i s).st.trace := by
  intro n
  induction n with
  | zero => intro i s h; simpa [fetchLoop, R.st] using h
  | succ n ih =>
    intro i s h
    have h1 : AllEv (GateEv cfg) (s.log (.fetch w fb)).trace := allEv_log h (by simp [GateEv, hnd])
    unfold fetchLoop
    simp only []
    split
    · simpa [R.st] using h1
    · split
      · simpa [R.st] using h1
      · exact ih _ _ h1

/-- what `tryDownload` hands back satisfies the recorded digest -/
def DResOk (cfg : Cfg) (w : What) : DRes → Prop
  | .done r => AllEv (GateEv cfg) r.st.trace ∧ (∀ c s', r = .ok c s' → HashOk cfg w c.sha)
  | .wrapExc s' => AllEv (GateEv cfg) s'.trace

theorem tryDownload_gate (cfg : Cfg) (hnd : cfg.nodownload = false) (env : Env) (flt : Faults) (w : What) (fb : Bool) (s : St)
    (h : AllEv (GateEv cfg) s.trace) : DResOk cfg w (tryDownload cfg env flt w fb s) := by
  have hf := fetchLoop_gate cfg hnd flt w fb (if fb then (fileEnv env w).fallbackUrl else (fileEnv env w).url) 6 0 s h
  unfold tryDownload
  simp only []
  generalize fetchLoop flt w fb (if fb then (fileEnv env w).fallbackUrl else (fileEnv env w).url) 6 0 s = r at hf
  rcases r with ⟨c, s1⟩ | ⟨e, s1⟩
  · have hf' : AllEv (GateEv cfg) s1.trace := by simpa [R.st] using hf
    cases hhash : (fileCfg cfg w).hash with
    | none => simpa [DResOk] using hf'
    | some h0 =>
      by_cases hsha : (c.sha != h0) = true
      · simpa [DResOk, hsha] using hf'
      · have hok : HashOk cfg w c.sha := by
          intro h' hh'
          rw [hhash] at hh'
          cases hh'
          simpa using hsha
        cases hr : faultErr (flt (.rename w)) with
        | some e =>
          simp only [hsha, DResOk, R.st]
          exact ⟨hf', by intro c' s' hc; cases hc⟩
        | none =>
          simp only [hsha, DResOk, R.st]
          refine ⟨?_, ?_⟩
          · apply allEv_log
            · simpa using hf'
            · simpa [GateEv] using hok
          · intro c' s' hc
            cases hc
            exact hok
  · have hf' : AllEv (GateEv cfg) s1.trace := by simpa [R.st] using hf
    cases e with
    | wrap => simpa [DResOk] using hf'
    | os => exact ⟨by simpa [R.st] using hf', by intro c s' hc; cases hc⟩
    | other => exact ⟨by simpa [R.st] using hf', by intro c s' hc; cases hc⟩

theorem download_gate (cfg : Cfg) (env : Env) (flt : Faults) (w : What) (s : St)
    (h : AllEv (GateEv cfg) s.trace) :
    AllEv (GateEv cfg) (download cfg env flt w s).st.trace ∧
    (∀ c s', download cfg env flt w s = .ok c s' → HashOk cfg w c.sha) := by
  unfold download
  by_cases hnd : cfg.nodownload = true
  · simp only [hnd, if_true]
    exact ⟨by simpa [R.st] using h, by intro c s' hc; cases hc⟩
  · simp only [hnd]
    have hnd' : cfg.nodownload = false := by simpa using hnd
    have h1 := tryDownload_gate cfg hnd' env flt w false s h
    generalize tryDownload cfg env flt w false s = d1 at h1
    cases d1 with
    | done r => exact ⟨h1.1, fun c s' hc => h1.2 c s' hc⟩
    | wrapExc s1 =>
      have h1' : AllEv (GateEv cfg) s1.trace := h1
      by_cases hfb : (fileCfg cfg w).hasFallbackUrl = true
      · simp only [hfb, if_true]
        have h2 := tryDownload_gate cfg hnd' env flt w true s1 h1'
        generalize tryDownload cfg env flt w true s1 = d2 at h2
        cases d2 with
        | done r => exact ⟨h2.1, fun c s' hc => h2.2 c s' hc⟩
        | wrapExc s2 => exact ⟨by simpa [R.st, DResOk] using h2, by intro c s' hc; cases hc⟩
      · simp only [hfb]
        exact ⟨by simpa [R.st] using h1', by intro c s' hc; cases hc⟩

theorem checkHash_spec (cfg : Cfg) (flt : Faults) (w : What) (c : Content) (req : Bool) (s : St) :
    (checkHash cfg flt w c req s).st = s ∧
    (∀ u s', checkHash cfg flt w c req s = .ok u s' → HashOk cfg w c.sha) := by
  unfold checkHash
  split
  · rename_i hnone
    split
    · exact ⟨rfl, by intro u s' hc; cases hc⟩
    · refine ⟨rfl, ?_⟩
      intro u s' _ h' hh'
      rw [hnone] at hh'; cases hh'
  · rename_i h0 hsome
    split
    · exact ⟨rfl, by intro u s' hc; cases hc⟩
    · split
      · exact ⟨rfl, by intro u s' hc; cases hc⟩
      · rename_i hsha
        refine ⟨rfl, ?_⟩
        intro u s' _ h' hh'
        rw [hsome] at hh'; cases hh'
        simpa using hsha

/-- `_get_file_internal` never returns a file whose digest differs from the recorded one -/
theorem getFileInternal_gate (cfg : Cfg) (env : Env) (flt : Faults) (w : What) (s : St)
    (h : AllEv (GateEv cfg) s.trace) :
    AllEv (GateEv cfg) (getFileInternal cfg env flt w s).st.trace ∧
    (∀ c s', getFileInternal cfg env flt w s = .ok c s' → HashOk cfg w c.sha) := by
  unfold getFileInternal
  simp only []
  split
  · exact ⟨by simpa [R.st] using h, by intro c s' hc; cases hc⟩
  · split
    · split
      · rename_i c hc
        have hs := checkHash_spec cfg flt w c true s
        split
        · rename_i e s1 heq
          rw [heq] at hs
          have : s1 = s := by simpa [R.st] using hs.1
          subst this
          exact ⟨by simpa [R.st] using h, by intro c' s' hc'; cases hc'⟩
        · rename_i u s1 heq
          rw [heq] at hs
          have : s1 = s := by simpa [R.st] using hs.1
          subst this
          refine ⟨by simpa [R.st] using h, ?_⟩
          intro c' s' hc'
          cases hc'
          exact hs.2 u _ rfl
      · exact download_gate cfg env flt w s h
    · split
      · exact ⟨by simpa [R.st] using h, by intro c s' hc; cases hc⟩
      · rename_i c hc
        have hs := checkHash_spec cfg flt w c false s
        split
        · rename_i e s1 heq
          rw [heq] at hs
          have : s1 = s := by simpa [R.st] using hs.1
          subst this
          exact ⟨by simpa [R.st] using h, by intro c' s' hc'; cases hc'⟩
        · rename_i u s1 heq
          rw [heq] at hs
          have : s1 = s := by simpa [R.st] using hs.1
          subst this
          refine ⟨by simpa [R.st] using h, ?_⟩
          intro c' s' hc'
          cases hc'
          exact hs.2 u _ rfl


/-! ### unpacking, patching, the whole run -/

theorem mkLead_trace (cfg : Cfg) (flt : Faults) (s : St) : (mkLead cfg flt s).st.trace = s.trace := by
  unfold mkLead
  repeat (first | split | rfl)

theorem unpackSource_trace (flt : Faults) (c : Content) (s : St) :
    (unpackSource flt c s).st.trace = s.trace ++ [.used .source c.sha] := by
  unfold unpackSource
  simp only []
  repeat (first | split | rfl)

theorem unpackPatch_trace (flt : Faults) (c : Content) (s : St) :
    (unpackPatch flt c s).st.trace = s.trace ++ [.used .patch c.sha] := by
  unfold unpackPatch
  simp only []
  repeat (first | split | rfl)

theorem patchDir_trace (env : Env) (flt : Faults) (s : St) : (patchDir env flt s).st.trace = s.trace := by
  unfold patchDir
  repeat (first | split | rfl)

theorem allEv_snoc {P : Event → Prop} {tr : List Event} {e : Event} (h : AllEv P tr) (he : P e) :
    AllEv P (tr ++ [e]) := by
  intro x hx
  simp at hx
  rcases hx with hx | hx
  · exact h x hx
  · subst hx; exact he

theorem getFile_gate (cfg : Cfg) (env : Env) (flt : Faults) (s : St) (h : AllEv (GateEv cfg) s.trace) :
    AllEv (GateEv cfg) (getFile cfg env flt s).st.trace := by
  have hg := getFileInternal_gate cfg env flt .source s h
  unfold getFile
  generalize getFileInternal cfg env flt .source s = r at hg
  rcases r with ⟨c, s1⟩ | ⟨e, s1⟩
  · have h1 : AllEv (GateEv cfg) s1.trace := by simpa [R.st] using hg.1
    have hc : HashOk cfg .source c.sha := hg.2 c s1 rfl
    simp only []
    have hm := mkLead_trace cfg flt s1
    generalize mkLead cfg flt s1 = m at hm
    rcases m with ⟨u, s2⟩ | ⟨e, s2⟩
    · simp only [R.st] at hm
      simp only []
      rw [unpackSource_trace, hm]
      exact allEv_snoc h1 (by simpa [GateEv] using hc)
    · simp only [R.st] at hm
      simp only [R.st, hm]
      exact h1
  · simpa [R.st] using hg.1

theorem applyPatch_gate (cfg : Cfg) (env : Env) (flt : Faults) (s : St) (h : AllEv (GateEv cfg) s.trace) :
    AllEv (GateEv cfg) (applyPatch cfg env flt s).st.trace := by
  have hg := getFileInternal_gate cfg env flt .patch s h
  unfold applyPatch
  generalize getFileInternal cfg env flt .patch s = r at hg
  split
  · simpa [R.st] using h
  · split
    · rcases r with ⟨c, s1⟩ | ⟨e, s1⟩
      · have h1 : AllEv (GateEv cfg) s1.trace := by simpa [R.st] using hg.1
        have hc : HashOk cfg .patch c.sha := hg.2 c s1 rfl
        simp only []
        rw [unpackPatch_trace]
        exact allEv_snoc h1 (by simpa [GateEv] using hc)
      · simpa [R.st] using hg.1
    · split
      · rw [patchDir_trace]; exact h
      · simpa [R.st] using h

theorem applyDiffs_st (flt : Faults) : ∀ ds i s, (applyDiffs flt ds i s).st = s := by
  intro ds
  induction ds with
  | nil => intro i s; rfl
  | cons d rest ih =>
    intro i s
    unfold applyDiffs
    repeat (first | split | rfl | exact ih _ _)

theorem acquire_gate (cfg : Cfg) (env : Env) (flt : Faults) (s : St) (h : AllEv (GateEv cfg) s.trace) :
    AllEv (GateEv cfg) (acquire cfg env flt s).st.trace := by
  unfold acquire
  split
  · split
    · simpa [R.st] using h
    · simp only [R.st]
      exact allEv_log (by simpa using h) (by simp [GateEv])
  · exact getFile_gate cfg env flt s h

theorem patchPhase_gate (cfg : Cfg) (env : Env) (flt : Faults) (s : St) (h : AllEv (GateEv cfg) s.trace) :
    AllEv (GateEv cfg) (patchPhase cfg env flt s).st.trace := by
  have hp := applyPatch_gate cfg env flt s h
  unfold patchPhase
  generalize applyPatch cfg env flt s = pr at hp
  rcases pr with ⟨u, s2⟩ | ⟨e, s2⟩
  · simp only []
    rw [applyDiffs_st]
    simpa [R.st] using hp
  · simpa [R.st] using hp

theorem finish_st (s : St) : (finish s).st = s := by
  unfold finish; split <;> rfl

/-- every event of a whole run is admissible: nothing is unpacked or stored in the cache unless its
digest is the recorded one, and nothing is fetched under `nodownload` -/
theorem resolve_gate (cfg : Cfg) (env : Env) (flt : Faults) :
    AllEv (GateEv cfg) (resolve cfg env flt).st.trace := by
  have h0 : AllEv (GateEv cfg) (initSt env).trace := by intro e he; simp [initSt] at he
  unfold resolve
  simp only []
  split
  · exact h0
  · split
    · split
      · exact h0
      · rw [finish_st]; exact h0
    · have ha := acquire_gate cfg env flt (initSt env) h0
      generalize acquire cfg env flt (initSt env) = acq at ha
      rcases acq with ⟨u, s1⟩ | ⟨e, s1⟩
      · have h1 : AllEv (GateEv cfg) s1.trace := by simpa [R.st] using ha
        have hp := patchPhase_gate cfg env flt s1 h1
        simp only []
        generalize patchPhase cfg env flt s1 = pr at hp
        rcases pr with ⟨u2, s2⟩ | ⟨e2, s2⟩
        · simp only []; rw [finish_st]; simpa [R.st] using hp
        · simp only [cleanup]
          exact allEv_log (by simpa [R.st] using hp) (by simp [GateEv])
      · simp only [cleanup]
        exact allEv_log (by simpa [R.st] using ha) (by simp [GateEv])

end MesonModel.DepPolicy.Wrap
