import MesonModel.DepPolicy.Cache
namespace MesonModel.DepPolicy.Cache

/-- every entry sits under the sub-key of its own type and of the relevant option value at the time it
was stored -/
def EntriesOk (es : List ((CType × List Str) × CDep)) : Prop :=
  ∀ k d, (k, d) ∈ es → k = (d.type, d.storedAt.sel (relevant d.type))

def Inv (c : MCache) : Prop := ∀ i s, (i, s) ∈ c.subs → EntriesOk s.entries

theorem elookup_mem (k : CType × List Str) : ∀ es d, elookup k es = some d → (k, d) ∈ es := by
  intro es
  induction es with
  | nil => intro d h; cases h
  | cons e rest ih =>
    intro d h
    rcases e with ⟨k', d'⟩
    simp only [elookup] at h
    by_cases hk : k' = k
    · simp only [hk, if_true] at h; cases h; simp [hk]
    · simp only [hk, if_false] at h; exact List.mem_cons_of_mem _ (ih d h)

theorem slookup_mem (i : Str) : ∀ ss s, slookup i ss = some s → (i, s) ∈ ss := by
  intro ss
  induction ss with
  | nil => intro s h; cases h
  | cons e rest ih =>
    intro s h
    rcases e with ⟨i', s'⟩
    simp only [slookup] at h
    by_cases hk : i' = i
    · simp only [hk, if_true] at h; cases h; simp [hk]
    · simp only [hk, if_false] at h; exact List.mem_cons_of_mem _ (ih s h)

theorem eset_mem (k : CType × List Str) (d : CDep) : ∀ es k' d', (k', d') ∈ eset k d es → (k', d') = (k, d) ∨ (k', d') ∈ es := by
  intro es
  induction es with
  | nil => intro k' d' h; simp [eset] at h; exact Or.inl (by rw [h.1, h.2])
  | cons e rest ih =>
    intro k' d' h
    rcases e with ⟨k2, d2⟩
    simp only [eset] at h
    by_cases hk : k2 = k
    · simp only [hk, if_true] at h
      rcases List.mem_cons.mp h with h | h
      · exact Or.inl h
      · exact Or.inr (List.mem_cons_of_mem _ h)
    · simp only [hk, if_false] at h
      rcases List.mem_cons.mp h with h | h
      · exact Or.inr (by rw [h]; simp)
      · rcases ih k' d' h with h | h
        · exact Or.inl h
        · exact Or.inr (List.mem_cons_of_mem _ h)

theorem sset_mem (i : Str) (s : SubCache) : ∀ ss i' s', (i', s') ∈ sset i s ss → (i', s') = (i, s) ∨ (i', s') ∈ ss := by
  intro ss
  induction ss with
  | nil => intro i' s' h; simp [sset] at h; exact Or.inl (by rw [h.1, h.2])
  | cons e rest ih =>
    intro i' s' h
    rcases e with ⟨i2, s2⟩
    simp only [sset] at h
    by_cases hk : i2 = i
    · simp only [hk, if_true] at h
      rcases List.mem_cons.mp h with h | h
      · exact Or.inl h
      · exact Or.inr (List.mem_cons_of_mem _ h)
    · simp only [hk, if_false] at h
      rcases List.mem_cons.mp h with h | h
      · exact Or.inr (by rw [h]; simp)
      · rcases ih i' s' h with h | h
        · exact Or.inl h
        · exact Or.inr (List.mem_cons_of_mem _ h)

/-- `put` with the documented table keeps the invariant -/
theorem put_inv (c : MCache) (ident id : Str) (t : CType) (h : Inv c) : Inv (put relevant c ident id t) := by
  intro i s hm
  simp only [put] at hm
  rcases sset_mem _ _ _ _ _ hm with heq | hold
  · cases heq
    intro k d hkd
    rcases eset_mem _ _ _ _ _ hkd with heq2 | hold2
    · cases heq2; rfl
    · cases hs : slookup ident c.subs with
      | none => simp [hs] at hold2
      | some s0 =>
        simp only [hs] at hold2
        exact h ident s0 (slookup_mem _ _ _ hs) k d hold2
  · exact h i s hold

theorem getIn_sound (p : Paths) (s : SubCache) (hs : EntriesOk s.entries) :
    ∀ ts d, getIn relevant p s ts = some d → Reusable p d := by
  intro ts
  induction ts with
  | nil => intro d h; cases h
  | cons t rest ih =>
    intro d h
    simp only [getIn] at h
    cases he : elookup (subkey relevant p t) s.entries with
    | none => simp only [he] at h; exact ih d h
    | some d0 =>
      simp only [he] at h
      cases h
      have := hs _ _ (elookup_mem _ _ _ he)
      simp only [subkey, Prod.mk.injEq] at this
      rcases this with ⟨ht, hp⟩
      subst ht
      unfold Reusable
      exact hp.symm

/-- a hit of `get` (documented table) may be reused -/
theorem get_sound (c : MCache) (h : Inv c) (ident : Str) (d : CDep) (hg : get relevant c ident = some d) :
    Reusable c.paths d := by
  unfold get at hg
  cases hs : slookup ident c.subs with
  | none => simp [hs] at hg
  | some s =>
    simp only [hs] at hg
    exact getIn_sound c.paths s (h ident s (slookup_mem _ _ _ hs)) s.types d hg

def InvSt (s : St) : Prop := Inv s.host ∧ Inv s.build

theorem inv_nil (p : Paths) : Inv { paths := p, subs := [] } := by
  intro i s hm; cases hm

theorem inv_paths (c : MCache) (p : Paths) (h : Inv c) : Inv { c with paths := p } := by
  intro i s hm; exact h i s hm

theorem step_inv (s : St) (op : Op) (h : InvSt s) : InvSt (step relevant s op).1 := by
  rcases h with ⟨hh, hb⟩
  cases op with
  | setPkg b v =>
    cases b
    · exact ⟨inv_paths _ _ hh, hb⟩
    · exact ⟨hh, inv_paths _ _ hb⟩
  | setCmake b v =>
    cases b
    · exact ⟨inv_paths _ _ hh, hb⟩
    · exact ⟨hh, inv_paths _ _ hb⟩
  | put b i id t =>
    cases b
    · exact ⟨put_inv _ _ _ _ hh, hb⟩
    · exact ⟨hh, put_inv _ _ _ _ hb⟩
  | get b i => exact ⟨hh, hb⟩
  | clear b =>
    cases b
    · exact ⟨inv_nil _, hb⟩
    · exact ⟨hh, inv_nil _⟩

theorem run_inv : ∀ (ops : List Op) (s : St), InvSt s → InvSt (run relevant s ops).1 := by
  intro ops
  induction ops with
  | nil => intro s h; exact h
  | cons op rest ih =>
    intro s h
    simp only [run]
    exact ih _ (step_inv s op h)

theorem init_inv : InvSt init := ⟨inv_nil _, inv_nil _⟩

end MesonModel.DepPolicy.Cache

namespace MesonModel.DepPolicy.Cache

theorem slookup_sset (i : Str) (s : SubCache) : ∀ ss, slookup i (sset i s ss) = some s := by
  intro ss
  induction ss with
  | nil => simp [sset, slookup]
  | cons e rest ih =>
    rcases e with ⟨i2, s2⟩
    by_cases hk : i2 = i
    · simp [sset, slookup, hk]
    · simp [sset, slookup, hk, ih]

/-- the documented cache reading, for an identifier cached once: the entry is served exactly while the
option relevant to its type still has the value it had when the entry was stored -/
theorem fresh_put_get (c : MCache) (i id : Str) (t : CType) (p' : Paths) (hfresh : slookup i c.subs = none) :
    get relevant { put relevant c i id t with paths := p' } i =
      if p'.sel (relevant t) = c.paths.sel (relevant t) then some { id := id, type := t, storedAt := c.paths } else none := by
  simp only [get, put, hfresh, slookup_sset, getIn, eset, elookup, subkey]
  by_cases h : p'.sel (relevant t) = c.paths.sel (relevant t)
  · simp [h]
  · have : ¬ ((t, c.paths.sel (relevant t)) = (t, p'.sel (relevant t))) := by
      intro he; simp only [Prod.mk.injEq, true_and] at he; exact h he.symm
    simp [h, this]

end MesonModel.DepPolicy.Cache
