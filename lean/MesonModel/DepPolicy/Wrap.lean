/-
Model of the wrap-file acquisition in `mesonbuild/wrap/wrap.py`: `Resolver._resolve` (from the
build-file test on), `_get_file`, `_get_file_internal`, `check_hash`, `_download`,
`get_data_with_backoff`, `check_can_download`, `apply_patch`, `apply_diff_files`.

A step machine over an abstract store: every external step (fetch attempt, reading a file for hashing,
rename into the cache, mkdir, unpack, copy_tree, running `patch`) is a *fault point* at which an
injected exception (`OSError`-like or other) may occur, given by an arbitrary function `Faults`.
Archive contents are abstract (`Content`): their SHA-256 and what unpacking them does.
git/hg/svn wraps are not modelled.  Core Lean only.
-/
namespace MesonModel.DepPolicy.Wrap

abbrev Hash := Nat

structure Content where
  sha : Hash
  unpackOk : Bool      -- `shutil.unpack_archive` succeeds
  createsDir : Bool    -- unpacking creates/populates the subproject directory
  hasBuildfile : Bool  -- ... including the build file
deriving DecidableEq, Repr

inductive What | source | patch
deriving DecidableEq, Repr

/-- what a URL serves -/
inductive Fetch
  | ok (c : Content)
  | wrapFail     -- urlopen raises OSError (get_data turns it into WrapException)
  | otherFail    -- another exception while reading
deriving DecidableEq, Repr

structure FileCfg where
  hasFilename : Bool
  hasUrl : Bool
  hasFallbackUrl : Bool
  hash : Option Hash      -- `<what>_hash`
deriving DecidableEq, Repr

structure FileEnv where
  cache : Option Content      -- packagecache/<filename>
  pkgfile : Option Content    -- packagefiles/<filename>
  url : Fetch
  fallbackUrl : Fetch
deriving DecidableEq, Repr

structure DiffEnv where
  present : Bool
  applies : Bool
deriving DecidableEq, Repr

structure Cfg where
  nodownload : Bool
  source : FileCfg
  hasPatchFilename : Bool
  patch : FileCfg
  hasPatchDirectory : Bool
  leadDirMissing : Bool
deriving DecidableEq, Repr

structure Env where
  dirExists : Bool
  dirIsDir : Bool
  dirBuild : Bool
  cachedDir : Option Bool        -- <cachedir>/<directory> is a directory (with/without build file)
  source : FileEnv
  patch : FileEnv
  patchDirExists : Bool
  patchDirBuild : Bool
  diffs : List DiffEnv           -- `diff_files` in order
deriving DecidableEq, Repr

inductive FaultKind | none | os | other
deriving DecidableEq, Repr

inductive FP
  | fetch (w : What) (fallback : Bool) (attempt : Nat)
  | hash (w : What)
  | rename (w : What)
  | mkdir
  | unpackPre (w : What)     -- unpack_archive raises before extracting anything
  | unpackPost (w : What)    -- ... after having extracted
  | unpack2                  -- second (temporary directory) attempt of apply_patch
  | copyTree                 -- copy_tree of apply_patch
  | cachedCopy               -- copy_tree of the cached directory
  | diff (i : Nat)
deriving DecidableEq, Repr

abbrev Faults := FP → FaultKind

inductive Err
  | wrap    -- WrapException
  | os      -- an OSError that is not converted
  | other   -- any other exception
deriving DecidableEq, Repr

inductive Event
  | fetch (w : What) (fallback : Bool)      -- one download attempt (urlopen)
  | cacheStore (w : What) (sha : Hash)      -- downloaded file renamed into the cache
  | used (w : What) (sha : Hash)            -- unpack_archive called on a file with this digest
  | usedCachedDir
  | rmtree
deriving DecidableEq, Repr

structure St where
  dirExists : Bool
  dirBuild : Bool
  cacheS : Option Content
  cacheP : Option Content
  trace : List Event
deriving DecidableEq, Repr

inductive R (α : Type)
  | ok (a : α) (s : St)
  | err (e : Err) (s : St)
deriving Repr

def St.log (s : St) (e : Event) : St := { s with trace := s.trace ++ [e] }

def fileCfg (c : Cfg) : What → FileCfg
  | .source => c.source | .patch => c.patch

def fileEnv (e : Env) : What → FileEnv
  | .source => e.source | .patch => e.patch

def St.cache (s : St) : What → Option Content
  | .source => s.cacheS | .patch => s.cacheP

def St.setCache (s : St) (w : What) (c : Content) : St :=
  match w with
  | .source => { s with cacheS := some c }
  | .patch => { s with cacheP := some c }

def faultErr : FaultKind → Option Err
  | .none => none | .os => some .os | .other => some .other

/-- `get_data_with_backoff`: up to 6 attempts of `get_data`; every exception of the first five is
swallowed.  `n` = attempts left, `i` = attempt number. -/
def fetchLoop (flt : Faults) (w : What) (fb : Bool) (url : Fetch) : Nat → Nat → St → R Content
  | 0, _, s => .err .other s   -- unreachable (called with 6)
  | n + 1, i, s =>
    let s := s.log (.fetch w fb)
    let res : Except Err Content :=
      match flt (.fetch w fb i) with
      | .os => .error .wrap           -- urlopen OSError → WrapException
      | .other => .error .other
      | .none =>
        match url with
        | .ok c => .ok c
        | .wrapFail => .error .wrap
        | .otherFail => .error .other
    match res with
    | .ok c => .ok c s
    | .error e => if n = 0 then .err e s else fetchLoop flt w fb url n (i + 1) s

/-- outcome of the `try:` body of `_download` followed by the rename -/
inductive DRes
  | done (r : R Content)
  | wrapExc (s : St)     -- a WrapException was raised inside the `try`

/-- one pass of `_download` after `check_can_download`: fetch, compare digests, rename into the cache -/
def tryDownload (cfg : Cfg) (env : Env) (flt : Faults) (w : What) (fb : Bool) (s : St) : DRes :=
  let fe := fileEnv env w
  match fetchLoop flt w fb (if fb then fe.fallbackUrl else fe.url) 6 0 s with
  | .err .wrap s1 => .wrapExc s1
  | .err e s1 => .done (.err e s1)
  | .ok c s1 =>
    match (fileCfg cfg w).hash with
    | none => .wrapExc s1                         -- `self.wrap.get(what + '_hash')` raises WrapException
    | some h =>
      if c.sha != h then .wrapExc s1              -- temp file removed, WrapException
      else match faultErr (flt (.rename w)) with
        | some e => .done (.err e s1)
        | none => .done (.ok c ((s1.setCache w c).log (.cacheStore w c.sha)))

/-- `_download(what, ofname, packagename)` including the retry with the fallback URL -/
def download (cfg : Cfg) (env : Env) (flt : Faults) (w : What) (s : St) : R Content :=
  if cfg.nodownload then .err .wrap s          -- check_can_download, outside the try
  else
    match tryDownload cfg env flt w false s with
    | .done r => r
    | .wrapExc s1 =>
      if (fileCfg cfg w).hasFallbackUrl then
        match tryDownload cfg env flt w true s1 with
        | .done r => r
        | .wrapExc s2 => .err .wrap s2
      else .err .wrap s1

/-- `check_hash` -/
def checkHash (cfg : Cfg) (flt : Faults) (w : What) (c : Content) (hashRequired : Bool) (s : St) : R Unit :=
  match (fileCfg cfg w).hash with
  | none => if hashRequired then .err .wrap s else .ok () s
  | some h =>
    match faultErr (flt (.hash w)) with
    | some e => .err e s
    | none => if c.sha != h then .err .wrap s else .ok () s

/-- `_get_file_internal` -/
def getFileInternal (cfg : Cfg) (env : Env) (flt : Faults) (w : What) (s : St) : R Content :=
  let fc := fileCfg cfg w
  if !fc.hasFilename then .err .wrap s
  else if fc.hasUrl then
    match s.cache w with
    | some c =>
      match checkHash cfg flt w c true s with
      | .err e s => .err e s
      | .ok _ s => .ok c s
    | none => download cfg env flt w s
  else
    match (fileEnv env w).pkgfile with
    | none => .err .wrap s
    | some c =>
      match checkHash cfg flt w c false s with
      | .err e s => .err e s
      | .ok _ s => .ok c s

def St.extract (s : St) (c : Content) : St :=
  { s with dirExists := s.dirExists || c.createsDir,
           dirBuild := s.dirBuild || ((s.dirExists || c.createsDir) && c.hasBuildfile) }

/-- `os.mkdir(self.dirname)` for `lead_directory_missing` -/
def mkLead (cfg : Cfg) (flt : Faults) (s : St) : R Unit :=
  if cfg.leadDirMissing then
    match faultErr (flt .mkdir) with
    | some e => .err e s
    | none => .ok () { s with dirExists := true }
  else .ok () s

/-- `shutil.unpack_archive(path, extract_dir)` of `_get_file` with its `except OSError` -/
def unpackSource (flt : Faults) (c : Content) (s : St) : R Unit :=
  let s := s.log (.used .source c.sha)
  match flt (.unpackPre .source) with
  | .os => .err .wrap s
  | .other => .err .other s
  | .none =>
    if !c.unpackOk then .err .wrap s     -- shutil.ReadError is an OSError
    else
      match flt (.unpackPost .source) with
      | .os => .err .wrap (s.extract c)
      | .other => .err .other (s.extract c)
      | .none => .ok () (s.extract c)

/-- `_get_file` -/
def getFile (cfg : Cfg) (env : Env) (flt : Faults) (s : St) : R Unit :=
  match getFileInternal cfg env flt .source s with
  | .err e s => .err e s
  | .ok c s =>
    match mkLead cfg flt s with
    | .err e s => .err e s
    | .ok _ s => unpackSource flt c s

/-- the two unpack attempts of `apply_patch` -/
def unpackPatch (flt : Faults) (c : Content) (s : St) : R Unit :=
  let s := s.log (.used .patch c.sha)
  -- first attempt: unpack into subprojects/
  let firstOk : Bool :=
    flt (.unpackPre .patch) == .none && c.unpackOk && flt (.unpackPost .patch) == .none
  if firstOk then .ok () (s.extract c)
  else
    -- `except Exception:` second attempt through a temporary directory
    let s := if flt (.unpackPre .patch) == .none && c.unpackOk then s.extract c else s
    match faultErr (flt .unpack2) with
    | some e => .err e s
    | none =>
      if !c.unpackOk then .err .os s
      else match faultErr (flt .copyTree) with
        | some e => .err e s
        | none => .ok () (s.extract c)

/-- the `patch_directory` branch of `apply_patch` -/
def patchDir (env : Env) (flt : Faults) (s : St) : R Unit :=
  if !env.patchDirExists then .err .wrap s
  else match faultErr (flt .copyTree) with
    | some e => .err e s
    | none => .ok () { s with dirExists := true, dirBuild := s.dirBuild || env.patchDirBuild }

/-- `apply_patch` -/
def applyPatch (cfg : Cfg) (env : Env) (flt : Faults) (s : St) : R Unit :=
  if cfg.hasPatchFilename && cfg.hasPatchDirectory then .err .wrap s
  else if cfg.hasPatchFilename then
    match getFileInternal cfg env flt .patch s with
    | .err e s => .err e s
    | .ok c s => unpackPatch flt c s
  else if cfg.hasPatchDirectory then patchDir env flt s
  else .ok () s

/-- `apply_diff_files` -/
def applyDiffs (flt : Faults) : List DiffEnv → Nat → St → R Unit
  | [], _, s => .ok () s
  | d :: rest, i, s =>
    if !d.present then .err .wrap s
    else match faultErr (flt (.diff i)) with
      | some e => .err e s
      | none => if !d.applies then .err .wrap s else applyDiffs flt rest (i + 1) s

/-- where an error came from -/
inductive Phase | early | acquire | patch | final
deriving DecidableEq, Repr

structure Result where
  ok : Bool
  err : Option Err
  phase : Phase
  st : St
deriving Repr

def initSt (env : Env) : St :=
  { dirExists := env.dirExists, dirBuild := env.dirExists && env.dirBuild,
    cacheS := env.source.cache, cacheP := env.patch.cache, trace := [] }

def finish (s : St) : Result :=
  if !s.dirBuild then ⟨false, some .wrap, .final, s⟩ else ⟨true, none, .final, s⟩

/-- the acquisition step of `_resolve`: extracted tree from the cache directory, or `_get_file` -/
def acquire (cfg : Cfg) (env : Env) (flt : Faults) (s : St) : R Unit :=
  match env.cachedDir with
  | some b =>
    match faultErr (flt .cachedCopy) with
    | some e => .err e { s with dirExists := true }
    | none => .ok () ({ s with dirExists := true, dirBuild := b }.log .usedCachedDir)
  | none => getFile cfg env flt s

/-- the patch/diff part of the `try:` of `_resolve` -/
def patchPhase (cfg : Cfg) (env : Env) (flt : Faults) (s : St) : R Unit :=
  match applyPatch cfg env flt s with
  | .err e s => .err e s
  | .ok _ s => applyDiffs flt env.diffs 0 s

/-- `except Exception: windows_proof_rmtree(self.dirname); raise` -/
def cleanup (s : St) : St := { s with dirExists := false, dirBuild := false }.log .rmtree

/-- `_resolve` for a `[wrap-file]` (from `has_buildfile()` on) -/
def resolve (cfg : Cfg) (env : Env) (flt : Faults) : Result :=
  let s := initSt env
  if s.dirBuild then ⟨true, none, .early, s⟩
  else if s.dirExists then
    if !env.dirIsDir then ⟨false, some .wrap, .early, s⟩ else finish s
  else
    match acquire cfg env flt s with
    | .err e s => ⟨false, some e, .acquire, cleanup s⟩   -- the acquisition is inside the same `try`
    | .ok _ s =>
      match patchPhase cfg env flt s with
      | .err e s => ⟨false, some e, .patch, cleanup s⟩
      | .ok _ s => finish s

/-- the environment the next run sees -/
def nextEnv (env : Env) (s : St) : Env :=
  { env with dirExists := s.dirExists, dirIsDir := true, dirBuild := s.dirBuild,
             source := { env.source with cache := s.cacheS }, patch := { env.patch with cache := s.cacheP } }

end MesonModel.DepPolicy.Wrap
