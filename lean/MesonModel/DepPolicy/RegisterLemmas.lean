import MesonModel.DepPolicy.Register
namespace MesonModel.DepPolicy

theorem tlookup_append (k k' : Key) (v : Dep × Bool) : ∀ (t : OvTable),
    tlookup k (t ++ [(k', v)]) = match tlookup k t with
                                 | some x => some x
                                 | none => if k' = k then some v else none := by
  intro t
  induction t with
  | nil => simp [tlookup]
  | cons e rest ih =>
    rcases e with ⟨k2, v2⟩
    simp only [List.cons_append, tlookup]
    by_cases h : k2 = k
    · simp [h]
    · simp only [h, if_false]; exact ih

/-- a lookup with `static: σ` on machine `nat` reads the table at key `(nat, name, σ)` -/
theorem alookup_slice (nat : Bool) (σ : Option Bool) (name : Str) : ∀ (t : OvTable),
    alookup name (slice t nat σ) = tlookup ⟨nat, name, σ⟩ t := by
  intro t
  induction t with
  | nil => rfl
  | cons e rest ih =>
    rcases e with ⟨⟨n2, name2, s2⟩, v2⟩
    simp only [slice, List.filterMap_cons, tlookup]
    by_cases h1 : n2 = nat ∧ s2 = σ
    · rcases h1 with ⟨rfl, rfl⟩
      simp only [and_self, if_true, alookup]
      by_cases h2 : name2 = name
      · subst h2; simp
      · have : (⟨n2, name2, s2⟩ : Key) ≠ ⟨n2, name, s2⟩ := by intro h; cases h; exact h2 rfl
        simp only [h2, this, if_false]
        exact ih
    · have : (⟨n2, name2, s2⟩ : Key) ≠ ⟨nat, name, σ⟩ := by
        intro h; cases h; exact h1 ⟨rfl, rfl⟩
      simp only [h1, this, if_false]
      exact ih

/-- registering under a key of the same machine and name, in a table where that key is free -/
theorem overrideImpl_fresh (t : OvTable) (k : Key) (d : Dep) (p : Bool) (h : tlookup k t = none) :
    overrideImpl t k d p = some (t ++ [(k, d, true)]) := by
  simp [overrideImpl, h]

end MesonModel.DepPolicy

namespace MesonModel.DepPolicy

theorem tlookup_app (k : Key) : ∀ (t l : OvTable),
    tlookup k (t ++ l) = match tlookup k t with
                         | some x => some x
                         | none => tlookup k l := by
  intro t
  induction t with
  | nil => intro l; simp [tlookup]
  | cons e rest ih =>
    intro l
    rcases e with ⟨k2, v2⟩
    simp only [List.cons_append, tlookup]
    by_cases h : k2 = k
    · simp [h]
    · simp only [h, if_false]; exact ih l

/-- **Registration follows the documented rule.** `meson.override_dependency(name, d, static: s)` in a
project with `default_library = dl`, for a name not yet overridden or resolved on that machine, succeeds
and afterwards the table answers the key `(machine, name, σ)` with `d` exactly when `covers s dl σ`;
every other machine/name is untouched. -/
theorem register_covers (t : OvTable) (name : Str) (d : Dep) (s : Option Bool) (dl : DefLib) (nat : Bool)
    (hne : name ≠ []) (hfresh : ∀ σ, tlookup ⟨nat, name, σ⟩ t = none) :
    ∃ t', overrideDependency t name d s dl nat = some t' ∧
      (∀ σ, tlookup ⟨nat, name, σ⟩ t' = if covers s dl σ then some (d, true) else none) ∧
      (∀ k : Key, (k.native ≠ nat ∨ k.name ≠ name) → tlookup k t' = tlookup k t) := by
  have hn : name.isEmpty = false := by
    cases name with
    | nil => exact absurd rfl hne
    | cons a b => rfl
  have hother : ∀ (k : Key) (σ : Option Bool), (k.native ≠ nat ∨ k.name ≠ name) → (⟨nat, name, σ⟩ : Key) ≠ k := by
    intro k σ h he
    subst he
    rcases h with h | h <;> exact h rfl
  have hrest : ∀ (l : OvTable) (k : Key), (k.native ≠ nat ∨ k.name ≠ name) →
      (∀ e ∈ l, ∃ σ, e.1 = (⟨nat, name, σ⟩ : Key)) → tlookup k (t ++ l) = tlookup k t := by
    intro l k hk hl
    rw [tlookup_app]
    have : tlookup k l = none := by
      induction l with
      | nil => rfl
      | cons e rest ih =>
        rcases e with ⟨k2, v2⟩
        rcases hl (k2, v2) (by simp) with ⟨σ, hσ⟩
        simp only at hσ
        simp only [tlookup, hσ, hother k σ hk, if_false]
        exact ih (fun e he => hl e (by simp [he]))
    rw [this]
    cases tlookup k t <;> rfl
  cases s with
  | none =>
    cases dl with
    | static =>
      refine ⟨t ++ [(⟨nat, name, none⟩, d, true), (⟨nat, name, some true⟩, d, true)],
              by simp [overrideDependency, hn, overrideImpl, hfresh, tlookup_append], ?_, ?_⟩
      · intro σ
        rcases σ with _ | (_ | _) <;> simp [tlookup_app, tlookup, hfresh, covers]
      · intro k hk
        exact hrest _ k hk (by intro e he; simp at he; rcases he with rfl | rfl <;> exact ⟨_, rfl⟩)
    | shared =>
      refine ⟨t ++ [(⟨nat, name, none⟩, d, true), (⟨nat, name, some false⟩, d, true)],
              by simp [overrideDependency, hn, overrideImpl, hfresh, tlookup_append], ?_, ?_⟩
      · intro σ
        rcases σ with _ | (_ | _) <;> simp [tlookup_app, tlookup, hfresh, covers]
      · intro k hk
        exact hrest _ k hk (by intro e he; simp at he; rcases he with rfl | rfl <;> exact ⟨_, rfl⟩)
    | both =>
      refine ⟨t ++ [(⟨nat, name, none⟩, d, true), (⟨nat, name, some true⟩, d, true), (⟨nat, name, some false⟩, d, true)],
              by simp [overrideDependency, hn, overrideImpl, hfresh, tlookup_append, tlookup_app, tlookup], ?_, ?_⟩
      · intro σ
        rcases σ with _ | (_ | _) <;> simp [tlookup_app, tlookup, hfresh, covers]
      · intro k hk
        exact hrest _ k hk (by intro e he; simp at he; rcases he with rfl | rfl | rfl <;> exact ⟨_, rfl⟩)
  | some b =>
    refine ⟨t ++ [(⟨nat, name, none⟩, d, true), (⟨nat, name, some b⟩, d, true)],
            by simp [overrideDependency, hn, overrideImpl, hfresh, tlookup_append], ?_, ?_⟩
    · intro σ
      rcases σ with _ | c
      · simp [tlookup_app, tlookup, hfresh, covers]
      · cases b <;> cases c <;> simp [tlookup_app, tlookup, hfresh, covers]
    · intro k hk
      exact hrest _ k hk (by intro e he; simp at he; rcases he with rfl | rfl <;> exact ⟨_, rfl⟩)

end MesonModel.DepPolicy
