import MesonModel.DepPolicy.Policy
/-
`lookup` (candidate list + loop, model of the code) against `policy` (decision table): the pieces.
Everything is stated on the outcome and the world after (`ow`), the effect trace is not part of the
policy.
-/
namespace MesonModel.DepPolicy

variable (sat : Str → List Str → Bool)

theorem checkVersion_eq (wanted : List Str) (v : Str) : checkVersion sat wanted v = satisfies sat wanted v := by
  unfold checkVersion satisfies
  cases wanted.isEmpty <;> by_cases hv : v = undefinedStr <;> cases sat v wanted <;> simp [hv, bne]

/-- outcome and world of a result -/
def ow (r : Res) : Outcome × World := (r.out, r.world)

/-- forget which exception -/
def toP (x : Outcome × World) : POutcome × World := (x.1.simplify, x.2)

theorem loop_tr (h : Holder) (wanted : List Str) (req : Bool) :
    ∀ cs w tr tr', ow (loop sat h wanted req cs w tr) = ow (loop sat h wanted req cs w tr') := by
  intro cs
  induction cs with
  | nil => intro w tr tr'; rfl
  | cons c rest ih =>
    intro w tr tr'
    unfold loop
    simp only []
    cases runCand sat h wanted (req && rest.isEmpty) w c with
    | raise k w' t => rfl
    | hit d w' t => simp only []; repeat (first | split | rfl)
    | cont w' t =>
      simp only []
      split
      · rfl
      · exact ih _ _ _

/-- what the loop does with a dependency object a candidate returned -/
def finishHit (h : Holder) (req : Bool) (d : Dep) (w : World) : Outcome × World :=
  if d.found then (.found d, { w with overrides := addImplicit w.overrides d h.names })
  else if req then (.error .dependency, w) else (.notFound, w)

theorem loop_cons (h : Holder) (wanted : List Str) (req : Bool) (c : Cand) (rest : List Cand) (w : World) (tr : List Effect) :
    ow (loop sat h wanted req (c :: rest) w tr) =
      match runCand sat h wanted (req && rest.isEmpty) w c with
      | .raise k w' _ => (.error k, w')
      | .hit d w' _ => finishHit h req d w'
      | .cont w' _ => if req && rest.isEmpty then (.error .dependency, w') else ow (loop sat h wanted req rest w' []) := by
  conv => lhs; unfold loop
  simp only []
  cases runCand sat h wanted (req && rest.isEmpty) w c with
  | raise k w' t => rfl
  | hit d w' t => simp only [finishHit]; repeat (first | split | rfl)
  | cont w' t =>
    simp only []
    split
    · rfl
    · exact loop_tr sat h wanted req rest w' _ _

theorem isEmpty_map_append {α β : Type} (f : α → β) (l : List α) (t : List β) (ht : t ≠ []) :
    (l.map f ++ t).isEmpty = false := by
  cases l with
  | nil => cases t with
    | nil => exact absurd rfl ht
    | cons a b => rfl
  | cons a b => rfl

/-! ### the cache candidates -/

theorem loop_cache (h : Holder) (wanted : List Str) (req : Bool) (tail : List Cand) (ht : tail ≠ []) (w : World) :
    ∀ ns, ow (loop sat h wanted req (ns.map Cand.cache ++ tail) w []) =
      match (firstCached sat h w wanted ns).1 with
      | some d => finishHit h req d w
      | none => ow (loop sat h wanted req tail w []) := by
  intro ns
  induction ns with
  | nil => simp [firstCached]
  | cons n rest ih =>
    simp only [List.map_cons, List.cons_append]
    rw [loop_cons]
    simp only [isEmpty_map_append _ _ _ ht, Bool.and_false, runCand, firstCached]
    generalize getCachedDep sat h w wanted n = g
    rcases g with ⟨o, t⟩
    cases o with
    | some d => rfl
    | none =>
      simp only []
      rw [ih]
      simp

/-- how a `Known` verdict shows in what `_get_cached_dep` returns -/
def Rel : Known → Option Dep → Prop
  | .found d, o => o = some d ∧ d.found = true
  | .failed, o => ∃ d, o = some d ∧ d.found = false
  | .unknown, o => o = none

/-- one name of `scanKnown` -/
def known1 (w : World) (wanted : List Str) (uc : Bool) (n : Str) : Known :=
  match knownOverride sat w wanted n with
  | .unknown => if uc then knownCached sat w wanted n else .unknown
  | k => k

theorem scanKnown_cons (w : World) (wanted : List Str) (uc : Bool) (n : Str) (rest : List Str) :
    scanKnown sat w wanted uc (n :: rest) =
      match known1 sat w wanted uc n with
      | .unknown => scanKnown sat w wanted uc rest
      | k => k := by
  simp only [scanKnown, known1]
  cases knownOverride sat w wanted n <;> simp
  cases uc <;> simp
  cases knownCached sat w wanted n <;> simp

theorem getCachedDep_rel (h : Holder) (w : World) (wanted : List Str) (uc : Bool)
    (huc : (h.forcefallback && truthy h.spName) = !uc) (n : Str) :
    Rel (known1 sat w wanted uc n) (getCachedDep sat h w wanted n).1 := by
  unfold known1 knownOverride getCachedDep
  cases ho : alookup n w.overrides with
  | some p =>
    rcases p with ⟨d, ex⟩
    simp only [checkVersion_eq]
    cases hf : d.found <;> cases hs : satisfies sat wanted d.version <;> simp [Rel, hf, nfDep]
  | none =>
    simp only [huc]
    cases uc with
    | false => simp [Rel]
    | true =>
      simp only [Bool.not_true, Bool.false_eq_true, if_false, if_true, knownCached]
      cases hc : alookup n w.cache with
      | none => simp [Rel]
      | some d =>
        simp only [checkVersion_eq]
        cases hs : satisfies sat wanted d.version <;> cases hf : d.found <;> simp [Rel, hf]

theorem firstCached_rel (h : Holder) (w : World) (wanted : List Str) (uc : Bool)
    (huc : (h.forcefallback && truthy h.spName) = !uc) :
    ∀ ns, Rel (scanKnown sat w wanted uc ns) (firstCached sat h w wanted ns).1 := by
  intro ns
  induction ns with
  | nil => simp [scanKnown, firstCached, Rel]
  | cons n rest ih =>
    rw [scanKnown_cons]
    have h1 := getCachedDep_rel sat h w wanted uc huc n
    unfold firstCached
    generalize getCachedDep sat h w wanted n = g at h1
    rcases g with ⟨o, t⟩
    generalize known1 sat w wanted uc n = k at h1
    cases k with
    | found d => simp only [Rel] at h1 ⊢; rcases h1 with ⟨h1, h2⟩; subst h1; exact ⟨rfl, h2⟩
    | failed => simp only [Rel] at h1 ⊢; rcases h1 with ⟨d, h1, h2⟩; subst h1; exact ⟨d, rfl, h2⟩
    | unknown => simp only [Rel] at h1; subst h1; simpa using ih

/-- the verdict of the policy for a hit -/
def knownResult (w : World) (names : List Str) (req : Bool) (next : POutcome × World) : Known → POutcome × World
  | .found d => answer w names d
  | .failed => (failure req, w)
  | .unknown => next

theorem rel_finish (h : Holder) (req : Bool) (w : World) (k : Known) (o : Option Dep)
    (next : Outcome × World) :
    Rel k o →
    toP (match o with | some d => finishHit h req d w | none => next) = knownResult w h.names req (toP next) k := by
  intro hr
  cases k with
  | found d =>
    rcases hr with ⟨h1, h2⟩; subst h1
    simp [finishHit, h2, toP, knownResult, answer, Outcome.simplify]
  | failed =>
    rcases hr with ⟨d, h1, h2⟩; subst h1
    cases req <;> simp [finishHit, h2, toP, knownResult, failure, Outcome.simplify]
  | unknown =>
    simp only [Rel] at hr; subst hr
    rfl

/-! ### the system candidates -/

theorem findExternal_eq (w : World) (wanted : List Str) (n : Str) :
    findExternal sat w wanted n =
      match alookup n w.system with
      | some v => if satisfies sat wanted v then some { ident := sysIdent n v, found := true, version := v } else none
      | none => none := by
  unfold findExternal
  cases alookup n w.system <;> simp [checkVersion_eq]

theorem sysScan_cons (w : World) (wanted : List Str) (n : Str) (rest : List Str) :
    sysScan sat w wanted (n :: rest) =
      match findExternal sat w wanted n with
      | some d => some (n, d)
      | none => sysScan sat w wanted rest := by
  rw [findExternal_eq]
  simp only [sysScan]
  cases alookup n w.system with
  | none => rfl
  | some v => cases hs : satisfies sat wanted v <;> simp [hs]

theorem findExternal_found (w : World) (wanted : List Str) (n : Str) (d : Dep)
    (h : findExternal sat w wanted n = some d) : d.found = true := by
  rw [findExternal_eq] at h
  cases hv : alookup n w.system with
  | none => simp [hv] at h
  | some v =>
    simp only [hv] at h
    split at h
    · cases h; rfl
    · cases h

/-- the system candidates when another candidate follows -/
theorem loop_sys (h : Holder) (wanted : List Str) (req : Bool) (tail : List Cand) (ht : tail ≠ []) (w : World) :
    ∀ ns, toP (ow (loop sat h wanted req (ns.map Cand.system ++ tail) w [])) =
      match sysScan sat w wanted ns with
      | some (n, d) => answer { w with cache := cachePut w.cache n d } h.names d
      | none => toP (ow (loop sat h wanted req tail w [])) := by
  intro ns
  induction ns with
  | nil => simp [sysScan]
  | cons n rest ih =>
    simp only [List.map_cons, List.cons_append]
    rw [loop_cons, sysScan_cons]
    simp only [isEmpty_map_append _ _ _ ht, Bool.and_false, runCand]
    cases hf : findExternal sat w wanted n with
    | some d =>
      have hd := findExternal_found sat w wanted n d hf
      simp [finishHit, hd, toP, answer, Outcome.simplify]
    | none =>
      simp only [Bool.false_eq_true, if_false]
      exact ih

/-- the system candidates when they are the last ones (no fallback subproject) -/
theorem loop_sys_last (h : Holder) (wanted : List Str) (req : Bool) (w : World) :
    ∀ ns n, toP (ow (loop sat h wanted req ((n :: ns).map Cand.system) w [])) =
      match sysScan sat w wanted (n :: ns) with
      | some (m, d) => answer { w with cache := cachePut w.cache m d } h.names d
      | none => (failure req, w) := by
  intro ns
  induction ns with
  | nil =>
    intro n
    simp only [List.map_cons, List.map_nil]
    rw [loop_cons, sysScan_cons]
    simp only [List.isEmpty_nil, Bool.and_true, runCand]
    cases hf : findExternal sat w wanted n with
    | some d =>
      have hd := findExternal_found sat w wanted n d hf
      simp [finishHit, hd, toP, answer, Outcome.simplify]
    | none =>
      cases req <;> simp [sysScan, toP, failure, Outcome.simplify, loop, ow]
  | cons m rest ih =>
    intro n
    simp only [List.map_cons]
    rw [loop_cons, sysScan_cons]
    simp only [List.isEmpty_cons, Bool.and_false, runCand]
    cases hf : findExternal sat w wanted n with
    | some d =>
      have hd := findExternal_found sat w wanted n d hf
      simp [finishHit, hd, toP, answer, Outcome.simplify]
    | none =>
      simp only [Bool.false_eq_true, if_false]
      have := ih m
      simpa [List.map_cons] using this


/-! ### what a configured subproject gives -/

theorem varname_step (sp : Str) (e : Option (Str × Option Str)) (A : Option Str) :
    (if truthy (match e with | some (sp', v) => if sp' = sp then v else none | none => none) = true
     then (match e with | some (sp', v) => if sp' = sp then v else none | none => none) else A) =
    (match e with
     | some (sp', some (c :: cs)) => if sp' = sp then some (c :: cs) else A
     | _ => A) := by
  cases e with
  | none => simp [truthy]
  | some p =>
    rcases p with ⟨sp', v⟩
    by_cases hsp : sp' = sp
    · cases v with
      | none => simp [hsp, truthy]
      | some x => cases x <;> simp [hsp, truthy]
    · cases v with
      | none => simp [hsp, truthy]
      | some x => cases x <;> simp [hsp, truthy]

theorem firstVarname_eq (w : World) (sp : Str) : ∀ ns, firstVarname w sp ns = provideVar w sp ns := by
  intro ns
  induction ns with
  | nil => rfl
  | cons n rest ih =>
    simp only [firstVarname, provideVar, getVarname, ih]
    exact varname_step sp (alookup n w.provides) (provideVar w sp rest)

theorem subVariable_cases (s : Sub) (x : Str) :
    (∃ d, alookup x s.vars = some (.dep d) ∧ subVariable s x = d) ∨
    ((∀ d, alookup x s.vars ≠ some (.dep d)) ∧ subVariable s x = nfDep) := by
  unfold subVariable
  split
  · rename_i d hal; exact Or.inl ⟨d, hal, rfl⟩
  · rename_i hno; exact Or.inr ⟨fun d hd => hno d hd, rfl⟩

theorem scanKnown_unknown_cached (w : World) (wanted : List Str) :
    ∀ ns, scanKnown sat w wanted true ns = .unknown → ∀ n ∈ ns, knownCached sat w wanted n = .unknown := by
  intro ns
  induction ns with
  | nil => intro _ n hn; cases hn
  | cons m rest ih =>
    intro hs n hn
    rw [scanKnown_cons] at hs
    simp only [known1] at hs
    cases hko : knownOverride sat w wanted m with
    | found d => simp [hko] at hs
    | failed => simp [hko] at hs
    | unknown =>
      simp only [hko, if_true] at hs
      cases hkc : knownCached sat w wanted m with
      | found d => simp [hkc] at hs
      | failed => simp [hkc] at hs
      | unknown =>
        simp only [hkc] at hs
        rcases List.mem_cons.mp hn with rfl | hn
        · exact hkc
        · exact ih hs n hn

theorem scanKnown_nocache (w : World) (wanted : List Str) (uc : Bool) :
    ∀ ns, (∀ n ∈ ns, knownCached sat w wanted n = .unknown) →
      scanKnown sat w wanted uc ns = scanKnown sat w wanted false ns := by
  intro ns
  induction ns with
  | nil => intro _; rfl
  | cons m rest ih =>
    intro hc
    rw [scanKnown_cons, scanKnown_cons]
    have hm := hc m (by simp)
    have ih' := ih (fun n hn => hc n (by simp [hn]))
    simp only [known1, hm]
    cases knownOverride sat w wanted m <;> cases uc <;> simp [ih']

theorem knownCached_congr (w w' : World) (hc : w'.cache = w.cache) (wanted : List Str) (n : Str) :
    knownCached sat w' wanted n = knownCached sat w wanted n := by
  simp only [knownCached, hc]

theorem findSub_name (w : World) (sp : Str) (s : Sub) (h : findSub w sp = some s) : s.name = sp := by
  unfold findSub at h
  have := List.find?_some h
  simpa using this

theorem getSubproject_name (w : World) (sp : Str) (s : Sub) (h : getSubproject w sp = some s) : s.name = sp := by
  unfold getSubproject at h
  cases hf : findSub w sp with
  | none => simp [hf] at h
  | some s' =>
    simp only [hf] at h
    split at h
    · cases h; exact findSub_name w sp _ hf
    · cases h

/-- `_get_subproject_dep` on a configured subproject is the policy's `fromSubproject` -/
theorem getSubprojectDep_spec (h : Holder) (r : Request) (w : World) (sp : Str) (s : Sub) (var : Option Str) (uc : Bool)
    (huc : (h.forcefallback && truthy h.spName) = !uc) (hn : h.names = r.names)
    (hs : getSubproject w sp = some s)
    (hcache : uc = true → ∀ n ∈ r.names, knownCached sat w r.wanted n = .unknown)
    (next : Outcome × World) :
    toP (match (getSubprojectDep sat h w r.wanted sp var).1 with
         | some d => finishHit h r.required d w
         | none => next) = fromSubproject sat w r s var := by
  have hname := getSubproject_name w sp s hs
  have hrel := firstCached_rel sat h w r.wanted uc huc h.names
  have hsk : scanKnown sat w r.wanted uc h.names = scanKnown sat w r.wanted false r.names := by
    rw [hn]
    cases uc with
    | false => rfl
    | true => exact scanKnown_nocache sat w r.wanted true r.names (hcache rfl)
  rw [hsk] at hrel
  unfold getSubprojectDep fromSubproject
  simp only [hs]
  generalize firstCached sat h w r.wanted h.names = g at hrel
  rcases g with ⟨o, t⟩
  generalize scanKnown sat w r.wanted false r.names = k at hrel
  cases k with
  | found d =>
    rcases hrel with ⟨h1, h2⟩
    simp only at h1; subst h1
    simp [finishHit, h2, toP, answer, Outcome.simplify, hn]
  | failed =>
    rcases hrel with ⟨d, h1, h2⟩
    simp only at h1; subst h1
    cases hr : r.required <;> simp [finishHit, h2, toP, failure, Outcome.simplify, hr]
  | unknown =>
    simp only [Rel] at hrel
    subst hrel
    simp only [firstVarname_eq, hname, hn]
    have hnf : ∀ (d : Dep), d.found = false → toP (finishHit h r.required d w) = (failure r.required, w) := by
      intro d hd
      cases hr : r.required <;> simp [finishHit, hd, toP, failure, Outcome.simplify]
    have hnf0 := hnf nfDep rfl
    -- the variable name in play
    have hv : (if (!truthy var) = true then provideVar w sp r.names else var) =
              (if truthy var = true then var else provideVar w sp r.names) := by
      cases truthy var <;> simp
    rw [hv]
    generalize (if truthy var = true then var else provideVar w sp r.names) = V
    cases V with
    | none => simpa [truthy] using hnf0
    | some x =>
      cases x with
      | nil => simpa [truthy] using hnf0
      | cons c cs =>
        simp only [truthy, Bool.not_true, Bool.false_eq_true, if_false, Option.getD]
        rcases subVariable_cases s (c :: cs) with ⟨d, hal, hsv⟩ | ⟨hno, hsv⟩
        · rw [hsv]
          simp only [hal, checkVersion_eq]
          cases hf : d.found with
          | false => simpa [hf] using hnf d hf
          | true =>
            cases hsat : satisfies sat r.wanted d.version with
            | false => simpa [hsat] using hnf0
            | true => simp [finishHit, hf, toP, answer, Outcome.simplify, hn]
        · rw [hsv]
          cases hal : alookup (c :: cs) s.vars with
          | none => simpa [nfDep] using hnf0
          | some vv =>
            cases vv with
            | notdep => simpa [nfDep] using hnf0
            | dep d => exact absurd hal (hno d)

/-! ### the world after `setSubState` -/

theorem setSubState_cache (w : World) (sp : Str) (st : SpState) : (setSubState w sp st).cache = w.cache := by
  unfold setSubState; split <;> rfl

theorem find_map_state (sp : Str) (st : SpState) : ∀ (l : List Sub) (s : Sub),
    l.find? (fun s => s.name == sp) = some s →
    (l.map (fun s => if s.name == sp then { s with state := st } else s)).find? (fun s => s.name == sp)
      = some { s with state := st } := by
  intro l
  induction l with
  | nil => intro s h; cases h
  | cons a rest ih =>
    intro s h
    simp only [List.find?_cons] at h
    by_cases ha : (a.name == sp) = true
    · simp only [ha] at h
      cases h
      have hname : a.name = sp := by simpa using ha
      simp [List.find?_cons, hname]
    · have ha' : (a.name == sp) = false := by simpa using ha
      simp only [ha'] at h
      simp only [List.map_cons, ha', Bool.false_eq_true, if_false, List.find?_cons]
      exact ih s h

theorem find_append_new (sp : Str) (x : Sub) (hx : x.name = sp) : ∀ (l : List Sub),
    l.find? (fun s => s.name == sp) = none → (l ++ [x]).find? (fun s => s.name == sp) = some x := by
  intro l h
  rw [List.find?_append, h]
  simp [List.find?_cons, hx]

theorem getSubproject_setSubState (w : World) (sp : Str) (st : SpState) (hst : st ≠ .found) :
    getSubproject (setSubState w sp st) sp = none := by
  unfold getSubproject
  have : ∃ s', findSub (setSubState w sp st) sp = some s' ∧ s'.state = st := by
    unfold setSubState
    cases hf : findSub w sp with
    | some s =>
      refine ⟨{ s with state := st }, ?_, rfl⟩
      simp only [findSub] at hf ⊢
      exact find_map_state sp st w.subs s hf
    | none =>
      refine ⟨{ name := sp, state := st, configureOk := false, overrides := [], vars := [] }, ?_, rfl⟩
      simp only [findSub] at hf ⊢
      exact find_append_new sp _ rfl w.subs hf
  rcases this with ⟨s', h1, h2⟩
  simp [h1, h2, hst]


/-! ### the holder `lookup` prepares against the policy's plan -/

structure Agree (w : World) (r : Request) (p : Plan) (h : Holder) : Prop where
  names : h.names = r.names
  forced : h.forcefallback = p.forced
  nofb : h.nofallback = (w.wrapMode == .nofallback)
  fb : match p.fallback with
       | some (sp, v) => h.spName = some sp ∧ h.spVar = v ∧ sp ≠ []
       | none => truthy h.spName = false

/-- the existing-subproject candidate -/
theorem loop_existing (h : Holder) (r : Request) (w : World) (sp : Str) (var : Option Str) (uc : Bool)
    (rest : List Cand) (hrest : rest ≠ []) (hne : sp ≠ [])
    (huc : (h.forcefallback && truthy h.spName) = !uc) (hn : h.names = r.names) (hv : h.spVar = var)
    (hcache : uc = true → ∀ n ∈ r.names, knownCached sat w r.wanted n = .unknown) :
    toP (ow (loop sat h r.wanted r.required (Cand.existing sp :: rest) w [])) =
      match getSubproject w sp with
      | some s => fromSubproject sat w r s var
      | none => toP (ow (loop sat h r.wanted r.required rest w [])) := by
  rw [loop_cons]
  have hre : rest.isEmpty = false := by cases rest with | nil => exact absurd rfl hrest | cons a b => rfl
  have hsp : sp.isEmpty = false := by cases sp with | nil => exact absurd rfl hne | cons a b => rfl
  simp only [hre, Bool.and_false, runCand, hsp, Bool.not_false, Bool.true_and, hv]
  cases hg : getSubproject w sp with
  | none => simp
  | some s =>
    have hspec := getSubprojectDep_spec sat h r w sp s var uc huc hn hg hcache
      (ow (loop sat h r.wanted r.required rest w []))
    simp only [Option.isSome_some, if_true]
    generalize getSubprojectDep sat h w r.wanted sp var = g at hspec ⊢
    rcases g with ⟨o, t⟩
    cases o <;> simpa using hspec

/-- the configure-the-subproject candidate (always the last one) -/
theorem loop_subproject (h : Holder) (r : Request) (w : World) (p : Plan) (sp : Str) (var : Option Str) (uc : Bool)
    (hne : sp ≠ []) (huc : (h.forcefallback && truthy h.spName) = !uc) (hn : h.names = r.names) (hv : h.spVar = var)
    (hforce : h.forcefallback = p.forced) (hnofb : h.nofallback = (w.wrapMode == .nofallback))
    (hcache : uc = true → ∀ n ∈ r.names, knownCached sat w r.wanted n = .unknown) :
    toP (ow (loop sat h r.wanted r.required [Cand.subproject sp] w [])) = fallbackStep sat w r p sp var := by
  rw [loop_cons]
  simp only [List.isEmpty_nil, Bool.and_true, runCand, hforce, hnofb, hv]
  unfold fallbackStep
  have hfail : ∀ w', toP (if r.required = true then (Outcome.error ErrKind.dependency, w')
      else ow (loop sat h r.wanted r.required [] w' [])) = (failure r.required, w') := by
    intro w'
    cases r.required <;> simp [toP, failure, loop, ow, Outcome.simplify]
  by_cases hnf : (w.wrapMode == WrapMode.nofallback && !p.forced) = true
  · have hnf' : (!p.forced && w.wrapMode == WrapMode.nofallback) = true := by rw [Bool.and_comm]; exact hnf
    simp only [hnf, hnf', if_true]
    exact hfail w
  · have hnf' : (!p.forced && w.wrapMode == WrapMode.nofallback) = false := by
      rw [Bool.and_comm]; simpa using hnf
    have hnf2 : (w.wrapMode == WrapMode.nofallback && !p.forced) = false := by simpa using hnf
    simp only [hnf2, hnf', Bool.false_eq_true, if_false]
    -- after a successful / skipped configure: `_get_subproject_dep` in world `w'`
    have hafter : ∀ (w' : World) (tr : List Effect), w'.cache = w.cache →
        toP (match (match getSubprojectDep sat h w' r.wanted sp var with
                    | (some d, tr') => Step.hit d w' (tr ++ tr')
                    | (none, tr') => Step.cont w' (tr ++ tr')) with
             | .raise k w'' _ => (Outcome.error k, w'')
             | .hit d w'' _ => finishHit h r.required d w''
             | .cont w'' _ => if r.required = true then (Outcome.error ErrKind.dependency, w'')
                              else ow (loop sat h r.wanted r.required [] w'' [])) =
          match getSubproject w' sp with
          | some s' => fromSubproject sat w' r s' var
          | none => (failure r.required, w') := by
      intro w' tr hc
      cases hg : getSubproject w' sp with
      | none =>
        simp only [getSubprojectDep, hg]
        exact hfail w'
      | some s' =>
        have hcache' : uc = true → ∀ n ∈ r.names, knownCached sat w' r.wanted n = .unknown := by
          intro hu n hn'
          rw [knownCached_congr sat w w' hc]
          exact hcache hu n hn'
        have hspec := getSubprojectDep_spec sat h r w' sp s' var uc huc hn hg hcache'
          (if r.required = true then (Outcome.error ErrKind.dependency, w')
           else ow (loop sat h r.wanted r.required [] w' []))
        simp only []
        generalize getSubprojectDep sat h w' r.wanted sp var = g at hspec ⊢
        rcases g with ⟨o, t⟩
        cases o <;> simpa using hspec
    unfold doSubproject
    cases hfs : findSub w sp with
    | none =>
      simp only []
      cases hr : r.required with
      | true => simp [toP, failure, Outcome.simplify]
      | false =>
        simp only [Bool.false_eq_true, if_false]
        have := hafter (setSubState w sp .disabled) [.doSubproject sp, .configure sp] (setSubState_cache w sp .disabled)
        rw [hr] at this
        simp only [Bool.false_eq_true, if_false] at this
        refine Eq.trans this ?_
        rw [getSubproject_setSubState w sp .disabled (by decide)]
    | some s =>
      have hsname := findSub_name w sp s hfs
      simp only []
      cases hst : s.state with
      | found =>
        have hg : getSubproject w sp = some s := by simp [getSubproject, hfs, hst]
        simp only [show (SpState.found != SpState.no) = true by decide,
                   show (SpState.found != SpState.found) = false by decide, Bool.and_false, if_true,
                   Bool.false_eq_true, if_false]
        have := hafter w [.doSubproject sp] rfl
        refine Eq.trans this ?_
        rw [hg]
      | disabled =>
        have hg : getSubproject w sp = none := by simp [getSubproject, hfs, hst]
        simp only [show (SpState.disabled != SpState.no) = true by decide,
                   show (SpState.disabled != SpState.found) = true by decide, Bool.and_true, if_true]
        cases hr : r.required with
        | true => simp [toP, failure, Outcome.simplify]
        | false =>
          simp only [Bool.false_eq_true, if_false]
          have := hafter w [.doSubproject sp] rfl
          rw [hr] at this
          simp only [Bool.false_eq_true, if_false] at this
          refine Eq.trans this ?_
          rw [hg]
      | no =>
        simp only [show (SpState.no != SpState.no) = false by decide, Bool.false_eq_true, if_false]
        unfold configured
        by_cases hc : (!s.configureOk) = true
        · simp only [hc, if_true]
          cases hr : r.required with
          | true => simp [toP, failure, Outcome.simplify]
          | false =>
            simp only [Bool.false_eq_true, if_false]
            have := hafter (setSubState w sp .disabled) [.doSubproject sp, .configure sp] (setSubState_cache w sp .disabled)
            rw [hr] at this
            simp only [Bool.false_eq_true, if_false] at this
            refine Eq.trans this ?_
            rw [getSubproject_setSubState w sp .disabled (by decide)]
        · simp only [hc, Bool.false_eq_true, if_false]
          by_cases hcf : (s.overrides.any fun p => (alookup p.1 w.overrides).isSome) = true
          · simp only [hcf, if_true]
            cases hr : r.required with
            | true => simp [toP, failure, Outcome.simplify]
            | false =>
              simp only [Bool.false_eq_true, if_false]
              have := hafter (setSubState w sp .disabled) [.doSubproject sp, .configure sp] (setSubState_cache w sp .disabled)
              rw [hr] at this
              simp only [Bool.false_eq_true, if_false] at this
              refine Eq.trans this ?_
              rw [getSubproject_setSubState w sp .disabled (by decide)]
          · simp only [hcf, Bool.false_eq_true, if_false, hsname]
            exact hafter _ [.doSubproject sp, .configure sp] (by rw [setSubState_cache])

end MesonModel.DepPolicy
