/-
Model of `mesonbuild/interpreter/dependencyfallbacks.py` (`DependencyFallbacksHolder`): constructor,
`set_fallback`, `lookup`, `_get_candidates`, `_do_dependency_cache`, `_get_cached_dep`,
`_do_existing_subproject`, `_do_dependency`, `_do_subproject`, `_get_subproject`,
`_get_subproject_dep`, `_get_subproject_variable`, `_check_version`, the implicit override.

The interpreter around it is an abstract world: `Build.dependency_overrides`, `CoreData.deps`, what the
system can provide (`find_external_dependency`), the wrap `[provide]` tables
(`Resolver.find_dep_provider`, `get_varname`), the subprojects (configured or not, what configuring
them would do: `Interpreter.do_subproject`), `wrap_mode`, `force_fallback_for`.

Version constraints are abstract: every definition takes `sat found wanted` (the first component of
`version_compare_many`); the driver instantiates it with the C19 model.
Core Lean only.
-/
namespace MesonModel.DepPolicy

abbrev Str := List Char

structure Dep where
  ident : Str
  found : Bool
  version : Str
deriving DecidableEq, Repr, Inhabited

/-- `NotFoundDependency(...)` (which one is irrelevant: only `found()` is observed) -/
def nfDep : Dep := { ident := [], found := false, version := [] }

inductive WrapMode | default | nofallback | nodownload | forcefallback | nopromote
deriving DecidableEq, Repr, Inhabited

inductive SpState | no | found | disabled
deriving DecidableEq, Repr, Inhabited

inductive VarVal | dep (d : Dep) | notdep
deriving DecidableEq, Repr

structure Sub where
  name : Str
  state : SpState
  configureOk : Bool
  overrides : List (Str × Dep)
  vars : List (Str × VarVal)
deriving DecidableEq, Repr

structure World where
  wrapMode : WrapMode
  fff : List Str
  overrides : List (Str × Dep × Bool)     -- name ↦ (dep, explicit)
  cache : List (Str × Dep)
  system : List (Str × Str)               -- name ↦ version
  provides : List (Str × Str × Option Str) -- dependency name ↦ (subproject, variable name)
  subs : List Sub
deriving DecidableEq, Repr

structure Request where
  names : List Str
  wanted : List Str
  required : Bool
  allowFallback : Option Bool
  fallback : Option (List Str)
deriving DecidableEq, Repr

inductive ErrKind
  | invalidArguments      -- InvalidArguments
  | interpreter           -- InterpreterException
  | dependency            -- DependencyException
  | configure             -- whatever exception configuring the subproject raised
deriving DecidableEq, Repr

inductive Outcome | found (d : Dep) | notFound | error (k : ErrKind)
deriving DecidableEq, Repr

inductive Effect
  | cacheGet (n : Str)        -- CoreData.deps.get
  | system (n : Str)          -- find_external_dependency
  | doSubproject (sp : Str)   -- Interpreter.do_subproject called
  | configure (sp : Str)      -- ... and it went on to configure the subproject (resolve + run)
deriving DecidableEq, Repr

/-! ### association lists, Python truthiness -/

def alookup {β : Type} (k : Str) : List (Str × β) → Option β
  | [] => none
  | (k', v) :: rest => if k' = k then some v else alookup k rest

/-- truthiness of an `Optional[str]` -/
def truthy : Option Str → Bool
  | some (_ :: _) => true
  | _ => false

def lowerChar (c : Char) : Char :=
  if 65 ≤ c.toNat && c.toNat ≤ 90 then Char.ofNat (c.toNat + 32) else c

def lower (s : Str) : Str := s.map lowerChar

def undefinedStr : Str := "undefined".toList

section
variable (sat : Str → List Str → Bool)

/-- `_check_version(wanted, found)` -/
def checkVersion (wanted : List Str) (found : Str) : Bool :=
  if wanted.isEmpty then true else !(found == undefinedStr || !sat found wanted)

/-! ### the holder -/

structure Holder where
  names : List Str
  allowFallback : Option Bool
  spName : Option Str
  spVar : Option Str
  forcefallback : Bool
  nofallback : Bool
deriving DecidableEq, Repr

def badNameChar (c : Char) : Bool := c == '<' || c == '>' || c == '='

/-- `__init__`: the loop over `names` -/
def initNames : List Str → List Str → Except ErrKind (List Str)
  | [], acc => .ok acc
  | n :: rest, acc =>
    if n.isEmpty then .error .interpreter
    else if n.any badNameChar then .error .invalidArguments
    else if acc.contains n then .error .interpreter
    else initNames rest (acc ++ [n])

/-- `set_fallback` -/
def setFallback (h : Holder) : Option (List Str) → Except ErrKind Holder
  | none => .ok h
  | some fb =>
    if h.allowFallback.isSome then .error .invalidArguments
    else match fb with
      | [] => .ok { h with allowFallback := some false }
      | [s] => .ok { h with spName := some s, spVar := none }
      | [s, v] => .ok { h with spName := some s, spVar := some v }
      | _ => .error .interpreter

/-! ### pieces of the world -/

def findSub (w : World) (sp : Str) : Option Sub := w.subs.find? (fun s => s.name == sp)

/-- `_get_subproject`: configured and found -/
def getSubproject (w : World) (sp : Str) : Option Sub :=
  match findSub w sp with
  | some s => if s.state = .found then some s else none
  | none => none

/-- `Resolver.find_dep_provider` -/
def findDepProvider (w : World) (name : Str) : Option Str × Option Str :=
  match alookup (lower name) w.provides with
  | some (sp, v) => (some sp, v)
  | none => (none, none)

/-- `Resolver.get_varname` -/
def getVarname (w : World) (sp : Str) (depname : Str) : Option Str :=
  match alookup depname w.provides with
  | some (sp', v) => if sp' = sp then v else none
  | none => none

/-- the implicit-fallback loop of `lookup` (lines 342-349) -/
def implicitFallback (w : World) (required : Bool) : List Str → Holder → Holder
  | [], h => h
  | n :: rest, h =>
    let (sp, v) := findDepProvider w n
    if truthy sp then
      let spn := sp.getD []
      let h := { h with forcefallback := h.forcefallback || w.fff.contains spn }
      if h.forcefallback || h.allowFallback == some true || required || (getSubproject w spn).isSome then
        { h with spName := sp, spVar := v }
      else h
    else implicitFallback w required rest h

inductive Cand
  | cache (n : Str) | existing (sp : Str) | system (n : Str) | subproject (sp : Str)
deriving DecidableEq, Repr

/-- `_get_candidates` -/
def getCandidates (h : Holder) : List Cand :=
  h.names.map Cand.cache
  ++ (if truthy h.spName then [Cand.existing (h.spName.getD [])] else [])
  ++ (if !h.forcefallback || !truthy h.spName then h.names.map Cand.system else [])
  ++ (if truthy h.spName then [Cand.subproject (h.spName.getD [])] else [])

/-- result of one candidate function: `None`, a dependency object, or an exception -/
inductive Step
  | cont (w : World) (tr : List Effect)
  | hit (d : Dep) (w : World) (tr : List Effect)
  | raise (k : ErrKind) (w : World) (tr : List Effect)
deriving Repr

/-- `_get_cached_dep` -/
def getCachedDep (h : Holder) (w : World) (wanted : List Str) (name : Str) : Option Dep × List Effect :=
  match alookup name w.overrides with
  | some (d, _explicit) =>
    if !d.found then (some d, [])
    else if !checkVersion sat wanted d.version then (some nfDep, [])
    else (some d, [])
  | none =>
    if h.forcefallback && truthy h.spName then (none, [])
    else match alookup name w.cache with
      | some d => if !checkVersion sat wanted d.version then (none, [.cacheGet name]) else (some d, [.cacheGet name])
      | none => (none, [.cacheGet name])

/-- the first loop of `_get_subproject_dep`: first name for which `_get_cached_dep` is not `None` -/
def firstCached (h : Holder) (w : World) (wanted : List Str) : List Str → Option Dep × List Effect
  | [] => (none, [])
  | n :: rest =>
    match getCachedDep sat h w wanted n with
    | (some d, tr) => (some d, tr)
    | (none, tr) => let (r, tr') := firstCached h w wanted rest; (r, tr ++ tr')

/-- the `get_varname` loop of `_get_subproject_dep` -/
def firstVarname (w : World) (sp : Str) : List Str → Option Str
  | [] => none
  | n :: rest => if truthy (getVarname w sp n) then getVarname w sp n else firstVarname w sp rest

/-- `_get_subproject_variable(...) or self._notfound_dependency()` -/
def subVariable (s : Sub) (varname : Str) : Dep :=
  match alookup varname s.vars with
  | some (.dep d) => d
  | _ => nfDep

/-- `_get_subproject_dep` -/
def getSubprojectDep (h : Holder) (w : World) (wanted : List Str) (sp : Str) (varname : Option Str) :
    Option Dep × List Effect :=
  match getSubproject w sp with
  | none => (none, [])
  | some s =>
    match firstCached sat h w wanted h.names with
    | (some d, tr) => (some d, tr)
    | (none, tr) =>
      let varname := if !truthy varname then firstVarname w sp h.names else varname
      if !truthy varname then (some nfDep, tr)
      else
        let vd := subVariable s (varname.getD [])
        if !vd.found then (some vd, tr)
        else if !checkVersion sat wanted vd.version then (some nfDep, tr)
        else (some vd, tr)

def sysIdent (name ver : Str) : Str := "sys:".toList ++ name ++ "@".toList ++ ver

/-- `dependencies.find_external_dependency` as the harness stubs it -/
def findExternal (w : World) (wanted : List Str) (name : Str) : Option Dep :=
  match alookup name w.system with
  | some v => if checkVersion sat wanted v then some { ident := sysIdent name v, found := true, version := v } else none
  | none => none

def cachePut (c : List (Str × Dep)) (name : Str) (d : Dep) : List (Str × Dep) :=
  if (alookup name c).isSome then c.map (fun p => if p.1 = name then (name, d) else p) else c ++ [(name, d)]

def setSubState (w : World) (sp : Str) (st : SpState) : World :=
  match findSub w sp with
  | some _ => { w with subs := w.subs.map (fun s => if s.name == sp then { s with state := st } else s) }
  | none => { w with subs := w.subs ++ [{ name := sp, state := st, configureOk := false, overrides := [], vars := [] }] }

/-- `Interpreter.do_subproject` as the harness stubs it: returns the world after, or an exception -/
def doSubproject (w : World) (sp : Str) (required : Bool) : Except ErrKind World × List Effect :=
  match findSub w sp with
  | some s =>
    if s.state != .no then
      if required && s.state != .found then (.error .interpreter, [.doSubproject sp])
      else (.ok w, [.doSubproject sp])
    else if !s.configureOk then
      if required then (.error .configure, [.doSubproject sp, .configure sp])
      else (.ok (setSubState w sp .disabled), [.doSubproject sp, .configure sp])
    else if s.overrides.any (fun p => (alookup p.1 w.overrides).isSome) then
      if required then (.error .interpreter, [.doSubproject sp, .configure sp])
      else (.ok (setSubState w sp .disabled), [.doSubproject sp, .configure sp])
    else
      let w := { w with overrides := w.overrides ++ s.overrides.map (fun p => (p.1, p.2, true)) }
      (.ok (setSubState w sp .found), [.doSubproject sp, .configure sp])
  | none =>
    if required then (.error .configure, [.doSubproject sp, .configure sp])
    else (.ok (setSubState w sp .disabled), [.doSubproject sp, .configure sp])

/-- one candidate function; `req` is `kwargs['required']` = `required and i == last` -/
def runCand (h : Holder) (wanted : List Str) (req : Bool) (w : World) : Cand → Step
  | .cache n =>
    match getCachedDep sat h w wanted n with
    | (some d, tr) => .hit d w tr
    | (none, tr) => .cont w tr
  | .existing sp =>
    if !sp.isEmpty && (getSubproject w sp).isSome then
      match getSubprojectDep sat h w wanted sp h.spVar with
      | (some d, tr) => .hit d w tr
      | (none, tr) => .cont w tr
    else .cont w []
  | .system n =>
    match findExternal sat w wanted n with
    | some d => .hit d { w with cache := cachePut w.cache n d } [.system n]
    | none => if req then .raise .dependency w [.system n] else .cont w [.system n]
  | .subproject sp =>
    if !h.forcefallback && h.nofallback then .cont w []
    else
      match doSubproject w sp req with
      | (.error k, tr) => .raise k w tr
      | (.ok w', tr) =>
        match getSubprojectDep sat h w' wanted sp h.spVar with
        | (some d, tr') => .hit d w' (tr ++ tr')
        | (none, tr') => .cont w' (tr ++ tr')

/-- the implicit override after a successful lookup (lines 374-378) -/
def addImplicit (ov : List (Str × Dep × Bool)) (d : Dep) : List Str → List (Str × Dep × Bool)
  | [] => ov
  | n :: rest =>
    if (alookup n ov).isSome then addImplicit ov d rest else addImplicit (ov ++ [(n, d, false)]) d rest

structure Res where
  out : Outcome
  world : World
  trace : List Effect
deriving Repr

/-- the candidate loop of `lookup` (lines 357-388) -/
def loop (h : Holder) (wanted : List Str) (required : Bool) : List Cand → World → List Effect → Res
  | [], w, tr => ⟨.notFound, w, tr⟩
  | c :: rest, w, tr =>
    let last := rest.isEmpty
    match runCand sat h wanted (required && last) w c with
    | .raise k w' t => ⟨.error k, w', tr ++ t⟩
    | .hit d w' t =>
      if d.found then ⟨.found d, { w' with overrides := addImplicit w'.overrides d h.names }, tr ++ t⟩
      else if required then ⟨.error .dependency, w', tr ++ t⟩
      else ⟨.notFound, w', tr ++ t⟩
    | .cont w' t =>
      if required && last then ⟨.error .dependency, w', tr ++ t⟩
      else loop h wanted required rest w' (tr ++ t)

/-- the holder as `lookup` has set it up before `_get_candidates` (lines 322-349) -/
def prepare (w : World) (r : Request) (h : Holder) : Holder :=
  let nofb := w.wrapMode == .nofallback
  let force := w.wrapMode == .forcefallback || h.names.any (fun n => w.fff.contains n)
               || (match h.spName with | some s => w.fff.contains s | none => false)
  let h := { h with nofallback := nofb, forcefallback := force }
  if !truthy h.spName && h.allowFallback != some false then implicitFallback w r.required h.names h else h

/-- constructor + `set_fallback` -/
def mkHolder (r : Request) : Except ErrKind Holder :=
  match initNames r.names [] with
  | .error k => .error k
  | .ok ns =>
    setFallback { names := ns, allowFallback := r.allowFallback, spName := none, spVar := none,
                  forcefallback := false, nofallback := false } r.fallback

/-- `func_dependency` after argument conversion: build the holder, `set_fallback`, `lookup` -/
def lookup (w : World) (r : Request) : Res :=
  match mkHolder r with
  | .error k => ⟨.error k, w, []⟩
  | .ok h0 =>
    let h := prepare w r h0
    let cands := getCandidates h
    if cands.isEmpty && r.required then ⟨.error .invalidArguments, w, []⟩
    else loop sat h r.wanted r.required cands w []

/-- a sequence of lookups within one configuration; an error aborts the configuration -/
def lookupSeq : World → List Request → List Res
  | _, [] => []
  | w, r :: rest =>
    let res := lookup sat w r
    match res.out with
    | .error _ => [res]
    | _ => res :: lookupSeq res.world rest

end

end MesonModel.DepPolicy
