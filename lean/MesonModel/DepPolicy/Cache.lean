/-
Model of `mesonbuild/coredata.py` `DependencyCache` / `DependencySubCache` / `DependencyCacheType`:
the persistent cache of found system dependencies (`CoreData.deps[machine]`), keyed by dependency
identifier and, below that, by a sub-key computed from the dependency's *type* and the value of the
search-path option the type→option table of `__calculate_subkey` names for that type.
The table is a parameter (`tbl`); the driver and the theorems instantiate it with the table extracted
from the live source (`MesonModel/Generated/DepCacheTable.lean`).  Core Lean only.
-/
namespace MesonModel.DepPolicy.Cache

abbrev Str := List Char

/-- `DependencyCacheType` -/
inductive CType | other | pkgconfig | cmake
deriving DecidableEq, Repr

/-- which option a table entry reads -/
inductive PathSel | none | pkg | cmake
deriving DecidableEq, Repr

/-- the two search-path options of one machine -/
structure Paths where
  pkg : List Str        -- pkg_config_path
  cmake : List Str      -- cmake_prefix_path
deriving DecidableEq, Repr

def Paths.sel (p : Paths) : PathSel → List Str
  | .none => []
  | .pkg => p.pkg
  | .cmake => p.cmake

/-- a cached dependency; `storedAt` is a ghost field: the option values when it was put -/
structure CDep where
  id : Str
  type : CType
  storedAt : Paths
deriving DecidableEq, Repr

/-- `DependencySubCache`: `types` is fixed by the first `put`; entries keyed by sub-key -/
structure SubCache where
  types : List CType
  entries : List ((CType × List Str) × CDep)
deriving Repr

/-- `DependencyCache` of one machine, with that machine's option values -/
structure MCache where
  paths : Paths
  subs : List (Str × SubCache)
deriving Repr

/-- `__calculate_subkey`: the type and the value of the option the table names for it -/
def subkey (tbl : CType → PathSel) (p : Paths) (t : CType) : CType × List Str := (t, p.sel (tbl t))

def elookup (k : CType × List Str) : List ((CType × List Str) × CDep) → Option CDep
  | [] => none
  | (k', d) :: rest => if k' = k then some d else elookup k rest

def eset (k : CType × List Str) (d : CDep) : List ((CType × List Str) × CDep) → List ((CType × List Str) × CDep)
  | [] => [(k, d)]
  | (k', d') :: rest => if k' = k then (k, d) :: rest else (k', d') :: eset k d rest

def slookup (i : Str) : List (Str × SubCache) → Option SubCache
  | [] => none
  | (i', s) :: rest => if i' = i then some s else slookup i rest

def sset (i : Str) (s : SubCache) : List (Str × SubCache) → List (Str × SubCache)
  | [] => [(i, s)]
  | (i', s') :: rest => if i' = i then (i, s) :: rest else (i', s') :: sset i s rest

/-- `put(key, dep)` -/
def put (tbl : CType → PathSel) (c : MCache) (ident : Str) (id : Str) (t : CType) : MCache :=
  let d : CDep := { id := id, type := t, storedAt := c.paths }
  let sub := match slookup ident c.subs with
             | some s => s
             | none => { types := [t], entries := [] }
  { c with subs := sset ident { sub with entries := eset (subkey tbl c.paths t) d sub.entries } c.subs }

/-- the loop of `get` over `val.types` -/
def getIn (tbl : CType → PathSel) (p : Paths) (s : SubCache) : List CType → Option CDep
  | [] => none
  | t :: rest =>
    match elookup (subkey tbl p t) s.entries with
    | some d => some d
    | none => getIn tbl p s rest

/-- `get(key)` -/
def get (tbl : CType → PathSel) (c : MCache) (ident : Str) : Option CDep :=
  match slookup ident c.subs with
  | none => none
  | some s => getIn tbl c.paths s s.types

/-- `clear()` -/
def clear (c : MCache) : MCache := { c with subs := [] }

/-- both machines -/
structure St where
  host : MCache
  build : MCache
deriving Repr

inductive Op
  | setPkg (build : Bool) (v : List Str)
  | setCmake (build : Bool) (v : List Str)
  | put (build : Bool) (ident : Str) (id : Str) (t : CType)
  | get (build : Bool) (ident : Str)
  | clear (build : Bool)
deriving Repr

def St.mc (s : St) (b : Bool) : MCache := if b then s.build else s.host
def St.setMc (s : St) (b : Bool) (c : MCache) : St := if b then { s with build := c } else { s with host := c }

def init : St :=
  { host := { paths := ⟨[], []⟩, subs := [] }, build := { paths := ⟨[], []⟩, subs := [] } }

def step (tbl : CType → PathSel) (s : St) : Op → St × Option (Option CDep)
  | .setPkg b v => (s.setMc b { s.mc b with paths := { (s.mc b).paths with pkg := v } }, none)
  | .setCmake b v => (s.setMc b { s.mc b with paths := { (s.mc b).paths with cmake := v } }, none)
  | .put b i id t => (s.setMc b (put tbl (s.mc b) i id t), none)
  | .get b i => (s, some (get tbl (s.mc b) i))
  | .clear b => (s.setMc b (clear (s.mc b)), none)

def run (tbl : CType → PathSel) : St → List Op → St × List (Option CDep)
  | s, [] => (s, [])
  | s, op :: rest =>
    let (s', a) := step tbl s op
    let (s'', as) := run tbl s' rest
    (s'', match a with | some x => x :: as | none => as)

/-- the documented relevance: a pkg-config result depends on `pkg_config_path`, a CMake result on
`cmake_prefix_path`, any other on neither -/
def relevant : CType → PathSel
  | .pkgconfig => .pkg
  | .cmake => .cmake
  | .other => .none

/-- a cached result may be reused: the search path that produced it is unchanged -/
def Reusable (now : Paths) (d : CDep) : Prop := d.storedAt.sel (relevant d.type) = now.sel (relevant d.type)

end MesonModel.DepPolicy.Cache
