import MesonModel.DepPolicy.Model
/-
Model of `MesonMain.override_dependency_method` / `_override_dependency_impl`
(`mesonbuild/interpreter/mesonmain.py`): the side that *registers* what `lookup` consults.

The override table is keyed by identifier = (machine, name, `static` flavour) — the other identifying
keywords of `get_dep_identifier` are at their defaults for every registration — and `lookup` with
`static: σ` sees its slice at flavour `σ` (`slice`), which is the `World.overrides` of the lookup model.
Core Lean only.
-/
namespace MesonModel.DepPolicy

inductive DefLib | shared | static | both
deriving DecidableEq, Repr

structure Key where
  native : Bool            -- `native: true` goes to the build-machine table
  name : Str
  static : Option Bool     -- the `static` entry of the identifier
deriving DecidableEq, Repr

abbrev OvTable := List (Key × Dep × Bool)      -- key ↦ (dependency, explicit)

def tlookup (k : Key) : OvTable → Option (Dep × Bool)
  | [] => none
  | (k', v) :: rest => if k' = k then some v else tlookup k rest

/-- `_override_dependency_impl`: `none` = InterpreterException "already been resolved or overridden" -/
def overrideImpl (t : OvTable) (k : Key) (d : Dep) (permissive : Bool) : Option OvTable :=
  match tlookup k t with
  | some _ => if permissive then some t else none
  | none => some (t ++ [(k, d, true)])

/-- `override_dependency_method(name, dep, static:, native:)` in a (sub)project whose `default_library` is `dl` -/
def overrideDependency (t : OvTable) (name : Str) (d : Dep) (static : Option Bool) (dl : DefLib) (native : Bool) :
    Option OvTable :=
  if name.isEmpty then none
  else
    match static with
    | none =>
      match overrideImpl t ⟨native, name, none⟩ d false with
      | none => none
      | some t1 =>
        match dl with
        | .static => overrideImpl t1 ⟨native, name, some true⟩ d false
        | .shared => overrideImpl t1 ⟨native, name, some false⟩ d false
        | .both =>
          match overrideImpl t1 ⟨native, name, some true⟩ d false with
          | none => none
          | some t2 => overrideImpl t2 ⟨native, name, some false⟩ d false
    | some b =>
      match overrideImpl t ⟨native, name, none⟩ d true with
      | none => none
      | some t1 => overrideImpl t1 ⟨native, name, some b⟩ d false

/-- the seeded variant: `if default_library in {static, both} ... elif default_library in {shared, both}` -/
def overrideDependencyElif (t : OvTable) (name : Str) (d : Dep) (static : Option Bool) (dl : DefLib) (native : Bool) :
    Option OvTable :=
  if name.isEmpty then none
  else
    match static with
    | none =>
      match overrideImpl t ⟨native, name, none⟩ d false with
      | none => none
      | some t1 =>
        if dl = .static ∨ dl = .both then overrideImpl t1 ⟨native, name, some true⟩ d false
        else if dl = .shared ∨ dl = .both then overrideImpl t1 ⟨native, name, some false⟩ d false
        else some t1
    | some b =>
      match overrideImpl t ⟨native, name, none⟩ d true with
      | none => none
      | some t1 => overrideImpl t1 ⟨native, name, some b⟩ d false

/-- the documented rule: which lookups (`static: σ`) an override made with `static: s` in a project with
`default_library = dl` answers — "if not specified, follows default_library" (both ⇒ static and shared);
a plain lookup finds every override -/
def covers (s : Option Bool) (dl : DefLib) (σ : Option Bool) : Bool :=
  match s, σ with
  | _, none => true
  | none, some true => dl == .static || dl == .both
  | none, some false => dl == .shared || dl == .both
  | some b, some c => b == c

/-- what a host (`native = false`) / build lookup with `static: σ` sees of the table -/
def slice (t : OvTable) (native : Bool) (σ : Option Bool) : List (Str × Dep × Bool) :=
  t.filterMap (fun e => if e.1.native = native ∧ e.1.static = σ then some (e.1.name, e.2) else none)

/-- a sequence of registrations; `none` as soon as one raises -/
def registerAll (t : OvTable) : List (Str × Dep × Option Bool × DefLib × Bool) → Option OvTable
  | [] => some t
  | (n, d, s, dl, nat) :: rest =>
    match overrideDependency t n d s dl nat with
    | none => none
    | some t' => registerAll t' rest

end MesonModel.DepPolicy
