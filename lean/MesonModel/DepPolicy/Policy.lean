import MesonModel.DepPolicy.Model
/-
The documented policy of `dependency()` as a decision table, written from `docs/yaml/functions/dependency.yaml`,
`docs/markdown/Subprojects.md` (wrap modes, `--force-fallback-for`) and
`docs/markdown/Wrap-dependency-system-manual.md` (`[provide]`, `allow_fallback`) — not from `lookup`.
It shares with the model only the description of the world (`World`, `Request`, association lists,
`findSub`, `setSubState`) and of what configuring a subproject does.  Readings of what the documents
leave open:
  R1  a fallback subproject that is already configured answers alone;
  R2  with `allow_fallback` unset and an optional lookup, a wrap `[provide]` entry still designates the
      fallback when its subproject is already part of the build;
  R3  names are tried in order: for each an override first, then (unless fallback is forced) a
      dependency remembered from an earlier run;
  R5  `World.cache` is what of the persistent cache may be reused in the present configuration: a cached
      result is reused only while the search path that produced it is unchanged (`Cache.Reusable`;
      `cache_hit_sound`, `cache_reused_iff_path_unchanged` in Props/C10).
Core Lean only (the driver runs it next to the Python table `c10_dep.Policy`).
-/
namespace MesonModel.DepPolicy

inductive POutcome | found (d : Dep) | notFound | error
deriving DecidableEq, Repr

/-- the policy does not say which exception an error is -/
def Outcome.simplify : Outcome → POutcome
  | .found d => .found d
  | .notFound => .notFound
  | .error _ => .error

section
variable (sat : Str → List Str → Bool)

/-- version `v` satisfies the constraint list; `undefined` satisfies only the empty list -/
def satisfies (wanted : List Str) (v : Str) : Bool :=
  wanted.isEmpty || (v != undefinedStr && sat v wanted)

/-- nothing suitable: a required lookup is an error, an optional one yields not-found -/
def failure (required : Bool) : POutcome := if required then .error else .notFound

/-! ### argument validation -/

/-- names are non-empty, free of `<`, `>`, `=`, and pairwise different -/
def namesOk : List Str → Bool
  | [] => true
  | n :: rest => !n.isEmpty && !n.any badNameChar && !rest.contains n && namesOk rest

/-- `fallback:` and `allow_fallback:` are mutually exclusive; `fallback:` has at most two items -/
def fallbackArgOk (r : Request) : Bool :=
  match r.fallback with
  | none => true
  | some l => r.allowFallback.isNone && l.length ≤ 2

/-! ### which subproject is the fallback; is fallback forced -/

structure Plan where
  fallback : Option (Str × Option Str)     -- subproject, variable name
  forced : Bool
deriving DecidableEq, Repr

/-- `fallback: 'sp'` / `fallback: ['sp', 'var']` -/
def explicitFallback (r : Request) : Option (Str × Option Str) :=
  match r.fallback with
  | some [s] => if s.isEmpty then none else some (s, none)
  | some [s, v] => if s.isEmpty then none else some (s, some v)
  | _ => none

/-- `allow_fallback`; `fallback: []` means `allow_fallback: false` -/
def allowOf (r : Request) : Option Bool :=
  if r.fallback == some [] then some false else r.allowFallback

/-- first name for which a wrap file `[provide]`s a subproject -/
def firstProvider (w : World) : List Str → Option (Str × Option Str)
  | [] => none
  | n :: rest =>
    match alookup n w.provides with
    | some (sp, v) => if sp.isEmpty then firstProvider w rest else some (sp, v)
    | none => firstProvider w rest

/-- the subproject is configured and found (`getSubproject` is part of the world description) -/
def subFound (w : World) (sp : Str) : Bool := (getSubproject w sp).isSome

/-- forced: wrap_mode=forcefallback, or force_fallback_for names the dependency or the `fallback:` subproject -/
def forced0 (w : World) (r : Request) : Bool :=
  w.wrapMode == .forcefallback || r.names.any (fun n => w.fff.contains n)
  || (match r.fallback with | some (s :: _) => w.fff.contains s | _ => false)

def plan (w : World) (r : Request) : Plan :=
  match explicitFallback r with
  | some fb => ⟨some fb, forced0 w r⟩
  | none =>
    if allowOf r == some false then ⟨none, forced0 w r⟩
    else match firstProvider w r.names with
      | none => ⟨none, forced0 w r⟩
      | some (sp, v) =>
        -- ... or force_fallback_for names the subproject a wrap file provides
        let forced := forced0 w r || w.fff.contains sp
        -- allow_fallback permits: true, or unset with a required or forced lookup (R2: or the
        -- subproject is already part of the build)
        if allowOf r == some true || r.required || forced || subFound w sp then ⟨some (sp, v), forced⟩
        else ⟨none, forced⟩

/-! ### what is already known about a name -/

inductive Known | found (d : Dep) | failed | unknown
deriving DecidableEq, Repr

/-- an overridden dependency wins (explicit override, or the recorded result of an earlier lookup) -/
def knownOverride (w : World) (wanted : List Str) (n : Str) : Known :=
  match alookup n w.overrides with
  | some (d, _) => if d.found && satisfies sat wanted d.version then .found d else .failed
  | none => .unknown

/-- a system dependency remembered from an earlier run, if it still matches -/
def knownCached (w : World) (wanted : List Str) (n : Str) : Known :=
  match alookup n w.cache with
  | some d => if satisfies sat wanted d.version then (if d.found then .found d else .failed) else .unknown
  | none => .unknown

/-- R3 -/
def scanKnown (w : World) (wanted : List Str) (useCache : Bool) : List Str → Known
  | [] => .unknown
  | n :: rest =>
    match knownOverride sat w wanted n with
    | .unknown =>
      match (if useCache then knownCached sat w wanted n else .unknown) with
      | .unknown => scanKnown w wanted useCache rest
      | k => k
    | k => k

/-- the first name the system can provide in a matching version -/
def sysScan (w : World) (wanted : List Str) : List Str → Option (Str × Dep)
  | [] => none
  | n :: rest =>
    match alookup n w.system with
    | some v =>
      if satisfies sat wanted v then some (n, { ident := sysIdent n v, found := true, version := v })
      else sysScan w wanted rest
    | none => sysScan w wanted rest

/-- the answer is `d`: later lookups of any of the names give the same dependency -/
def answer (w : World) (names : List Str) (d : Dep) : POutcome × World :=
  (.found d, { w with overrides := addImplicit w.overrides d names })

/-- the variable a wrap `[provide]` entry names for one of the names -/
def provideVar (w : World) (sp : Str) : List Str → Option Str
  | [] => none
  | n :: rest =>
    match alookup n w.provides with
    | some (sp', some (c :: cs)) => if sp' = sp then some (c :: cs) else provideVar w sp rest
    | _ => provideVar w sp rest

/-- the dependency a configured subproject `s` gives: what it registered with
`meson.override_dependency` under one of the names, else the variable named by `fallback:` or by the
wrap file -/
def fromSubproject (w : World) (r : Request) (s : Sub) (var : Option Str) : POutcome × World :=
  match scanKnown sat w r.wanted false r.names with
  | .found d => answer w r.names d
  | .failed => (failure r.required, w)
  | .unknown =>
    let var := if truthy var then var else provideVar w s.name r.names
    match var with
    | some (c :: cs) =>
      (match alookup (c :: cs) s.vars with
       | some (.dep d) =>
         if d.found && satisfies sat r.wanted d.version then answer w r.names d else (failure r.required, w)
       | _ => (failure r.required, w))
    | _ => (failure r.required, w)

/-- configuring an unconfigured subproject: its overrides are registered, unless it fails -/
def configured (w : World) (s : Sub) : Option World :=
  if !s.configureOk then none
  else if s.overrides.any (fun p => (alookup p.1 w.overrides).isSome) then none
  else some (setSubState { w with overrides := w.overrides ++ s.overrides.map (fun p => (p.1, p.2, true)) } s.name .found)

/-- the fallback step -/
def fallbackStep (w : World) (r : Request) (p : Plan) (sp : Str) (var : Option Str) : POutcome × World :=
  -- wrap_mode=nofallback: no fallback, unless forced for this dependency
  if w.wrapMode == .nofallback && !p.forced then (failure r.required, w)
  else
    match findSub w sp with
    | none => (failure r.required, if r.required then w else setSubState w sp .disabled)
    | some s =>
      match s.state with
      | .disabled => (failure r.required, w)
      | .found => fromSubproject sat w r s var
      | .no =>
        match configured w s with
        | none => (failure r.required, if r.required then w else setSubState w sp .disabled)
        | some w' =>
          match getSubproject w' sp with
          | some s' => fromSubproject sat w' r s' var
          | none => (failure r.required, w')

/-- the system step, then `next` -/
def systemStep (w : World) (r : Request) (next : POutcome × World) : POutcome × World :=
  match sysScan sat w r.wanted r.names with
  | some (n, d) => answer { w with cache := cachePut w.cache n d } r.names d
  | none => next

/-- the decision table -/
def decide (w : World) (r : Request) (p : Plan) : POutcome × World :=
  -- fallback forced (and there is a fallback to force): the system is not consulted
  let useSystem := !(p.forced && p.fallback.isSome)
  match scanKnown sat w r.wanted useSystem r.names with
  | .found d => answer w r.names d                                    -- 1. an overridden / known dependency wins
  | .failed => (failure r.required, w)
  | .unknown =>
    match p.fallback with
    | none => systemStep sat w r (failure r.required, w)              -- 2. the system; nothing else
    | some (sp, var) =>
      match getSubproject w sp with
      | some s => fromSubproject sat w r s var                        -- R1. fallback subproject already configured
      | none =>
        if useSystem then systemStep sat w r (fallbackStep sat w r p sp var)   -- 2. the system, 3. the fallback
        else fallbackStep sat w r p sp var                                      -- forced: the fallback only

def policy (w : World) (r : Request) : POutcome × World :=
  if !namesOk r.names || !fallbackArgOk r then (.error, w)
  else decide sat w r (plan w r)

/-- a sequence of lookups; an error aborts the configuration -/
def policySeq : World → List Request → List (POutcome × World)
  | _, [] => []
  | w, r :: rest =>
    let res := policy sat w r
    match res.1 with
    | .error => [res]
    | _ => res :: policySeq res.2 rest

/-- the domain on which the model speaks for the code: dependency names are lower case (wrap files are
ini files, their keys are lower-cased; `find_dep_provider` lower-cases the query, `get_varname` does not) -/
def WellFormed (r : Request) : Prop := ∀ n ∈ r.names, lower n = n

end

end MesonModel.DepPolicy
