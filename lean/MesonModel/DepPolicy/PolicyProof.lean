import MesonModel.DepPolicy.PolicyLemmas
/-
`lookup = policy`: argument validation, the prepared holder against the plan, and the assembly.
-/
namespace MesonModel.DepPolicy

variable (sat : Str → List Str → Bool)

/-! ### argument validation -/

theorem contains_append_singleton (acc : List Str) (n m : Str) :
    (acc ++ [n]).contains m = (acc.contains m || m == n) := by
  simp [List.contains_eq_mem, List.mem_append]
  by_cases h1 : m ∈ acc <;> by_cases h2 : m = n <;> simp [h1, h2]

theorem initNames_ok : ∀ (ns acc : List Str), namesOk ns = true → (∀ n ∈ ns, acc.contains n = false) →
    initNames ns acc = .ok (acc ++ ns) := by
  intro ns
  induction ns with
  | nil => intro acc _ _; simp [initNames]
  | cons n rest ih =>
    intro acc hok hacc
    simp only [namesOk, Bool.and_eq_true, Bool.not_eq_true'] at hok
    rcases hok with ⟨⟨⟨h1, h2⟩, h3⟩, h4⟩
    have h5 := hacc n (by simp)
    simp only [initNames, h1, h2, h5, Bool.false_eq_true, if_false]
    rw [ih (acc ++ [n]) h4]
    · simp
    · intro m hm
      rw [contains_append_singleton]
      have hmacc := hacc m (by simp [hm])
      have hmn : m ≠ n := by
        intro he; subst he
        have : rest.contains m = true := by simpa [List.contains_eq_mem] using hm
        rw [this] at h3; cases h3
      have hma : m ∉ acc := by simpa [List.contains_eq_mem] using hmacc
      simp [hma, hmn]

theorem initNames_err : ∀ (ns acc : List Str), (namesOk ns = false ∨ ∃ n ∈ ns, acc.contains n = true) →
    ∃ k, initNames ns acc = .error k := by
  intro ns
  induction ns with
  | nil =>
    intro acc h
    rcases h with h | ⟨n, hn, _⟩
    · simp [namesOk] at h
    · cases hn
  | cons n rest ih =>
    intro acc h
    simp only [initNames]
    by_cases h1 : n.isEmpty = true
    · refine ⟨ErrKind.interpreter, ?_⟩; simp [h1]
    · by_cases h2 : n.any badNameChar = true
      · refine ⟨ErrKind.invalidArguments, ?_⟩; simp [h1, h2]
      · by_cases h3 : acc.contains n = true
        · refine ⟨ErrKind.interpreter, ?_⟩
          have : n ∈ acc := by simpa [List.contains_eq_mem] using h3
          simp [h1, h2, this]
        · simp only [h1, h2, h3, if_false]
          apply ih
          have h1' : n.isEmpty = false := by simpa using h1
          have h2' : n.any badNameChar = false := by simpa using h2
          have h3' : acc.contains n = false := by simpa using h3
          rcases h with h | ⟨m, hm, hacc⟩
          · simp only [namesOk, h1', h2', Bool.not_false, Bool.true_and] at h
            by_cases hr : rest.contains n = true
            · right
              refine ⟨n, by simpa [List.contains_eq_mem] using hr, ?_⟩
              rw [contains_append_singleton]; simp
            · left
              have hr' : rest.contains n = false := by simpa using hr
              rw [hr'] at h
              simpa using h
          · right
            rcases List.mem_cons.mp hm with rfl | hm'
            · rw [h3'] at hacc; cases hacc
            · exact ⟨m, hm', by rw [contains_append_singleton, hacc]; rfl⟩

theorem mkHolder_err (r : Request) (h : (!namesOk r.names || !fallbackArgOk r) = true) :
    ∃ k, mkHolder r = .error k := by
  unfold mkHolder
  by_cases hn : namesOk r.names = true
  · rw [initNames_ok r.names [] hn (by intro n _; rfl)]
    simp only [hn, Bool.not_true, Bool.false_or, Bool.not_eq_true'] at h
    unfold fallbackArgOk at h
    cases hf : r.fallback with
    | none => simp [hf] at h
    | some l =>
      simp only [hf] at h
      simp only [setFallback, List.nil_append]
      by_cases ha : r.allowFallback.isSome = true
      · refine ⟨ErrKind.invalidArguments, ?_⟩; simp [ha]
      · have ha' : r.allowFallback.isNone = true := by
          cases hx : r.allowFallback <;> simp [hx] at ha ⊢
        simp only [ha', Bool.true_and, decide_eq_false_iff_not, Nat.not_le] at h
        match l, h with
        | a :: b :: c :: rest, _ => refine ⟨ErrKind.interpreter, ?_⟩; simp [ha]
  · have hn' : namesOk r.names = false := by simpa using hn
    rcases initNames_err r.names [] (Or.inl hn') with ⟨k, hk⟩
    exact ⟨k, by rw [hk]⟩

/-! ### the implicit fallback -/

theorem implicitFallback_spec (w : World) (req : Bool) :
    ∀ (ns : List Str) (h : Holder), (∀ n ∈ ns, lower n = n) →
      implicitFallback w req ns h =
        match firstProvider w ns with
        | none => h
        | some (sp, v) =>
          if (h.forcefallback || w.fff.contains sp) || h.allowFallback == some true || req || (getSubproject w sp).isSome
          then { h with forcefallback := h.forcefallback || w.fff.contains sp, spName := some sp, spVar := v }
          else { h with forcefallback := h.forcefallback || w.fff.contains sp } := by
  intro ns
  induction ns with
  | nil => intro h _; rfl
  | cons n rest ih =>
    intro h hl
    have hn := hl n (by simp)
    have ih' := ih h (fun m hm => hl m (by simp [hm]))
    simp only [implicitFallback, firstProvider, findDepProvider, hn]
    cases hp : alookup n w.provides with
    | none => simpa [truthy] using ih'
    | some pr =>
      rcases pr with ⟨sp, v⟩
      cases sp with
      | nil => simpa [truthy] using ih'
      | cons c cs => simp [truthy]

/-- the holder after the first lines of `lookup` (322-334) -/
def prepBase (w : World) (h : Holder) : Holder :=
  { h with nofallback := w.wrapMode == .nofallback,
           forcefallback := w.wrapMode == .forcefallback || h.names.any (fun n => w.fff.contains n)
                            || (match h.spName with | some s => w.fff.contains s | none => false) }

theorem prepare_eq (w : World) (r : Request) (h : Holder) :
    prepare w r h =
      if (!truthy (prepBase w h).spName && (prepBase w h).allowFallback != some false) = true
      then implicitFallback w r.required (prepBase w h).names (prepBase w h) else prepBase w h := rfl

def H0 (r : Request) (a : Option Bool) (sn sv : Option Str) : Holder :=
  { names := r.names, allowFallback := a, spName := sn, spVar := sv, forcefallback := false, nofallback := false }

/-- `lookup`'s preamble computes the policy's plan -/
theorem prepare_agree (w : World) (r : Request) (hwf : WellFormed r)
    (hn : namesOk r.names = true) (hf : fallbackArgOk r = true) :
    ∃ h0, mkHolder r = .ok h0 ∧ Agree w r (plan w r) (prepare w r h0) := by
  unfold mkHolder
  rw [initNames_ok r.names [] hn (by intro n _; rfl)]
  simp only [List.nil_append]
  unfold fallbackArgOk at hf
  -- the implicit branch, shared by `fallback` absent / `[]` / an empty subproject name
  have himpl : ∀ (h1 : Holder), h1.names = r.names → truthy h1.spName = false →
      h1.forcefallback = forced0 w r →
      h1.nofallback = (w.wrapMode == .nofallback) →
      h1.allowFallback = allowOf r → explicitFallback r = none →
      Agree w r (plan w r) (if (!truthy h1.spName && h1.allowFallback != some false) = true
                            then implicitFallback w r.required h1.names h1 else h1) := by
    intro h1 hnames htr hforce hnofb hallow hexp
    unfold plan
    simp only [hexp, ← hforce, ← hallow]
    by_cases hal : (h1.allowFallback == some false) = true
    · have : (h1.allowFallback != some false) = false := by simp [bne, hal]
      simp only [hal, this, Bool.and_false, Bool.false_eq_true, if_false, if_true]
      exact ⟨hnames, rfl, hnofb, htr⟩
    · have hal' : (h1.allowFallback == some false) = false := by simpa using hal
      have : (h1.allowFallback != some false) = true := by simp [bne, hal']
      simp only [hal', this, htr, Bool.not_false, Bool.and_true, if_true, Bool.false_eq_true, if_false]
      rw [implicitFallback_spec w r.required h1.names h1 (by rw [hnames]; exact hwf), hnames]
      cases hfp : firstProvider w r.names with
      | none => exact ⟨hnames, rfl, hnofb, htr⟩
      | some pr =>
        rcases pr with ⟨sp, v⟩
        simp only [subFound]
        have hspne : sp ≠ [] := by
          -- firstProvider never returns an empty name
          have : ∀ ns, firstProvider w ns = some (sp, v) → sp ≠ [] := by
            intro ns
            induction ns with
            | nil => intro h; cases h
            | cons m rest ih =>
              intro h
              simp only [firstProvider] at h
              cases hm : alookup m w.provides with
              | none => simp only [hm] at h; exact ih h
              | some q =>
                rcases q with ⟨sp', v'⟩
                simp only [hm] at h
                cases sp' with
                | nil => simp at h; exact ih h
                | cons c cs => simp at h; rcases h with ⟨h1, _⟩; rw [← h1]; simp
          exact this _ hfp
        by_cases hc : ((h1.forcefallback || w.fff.contains sp) || h1.allowFallback == some true || r.required
                        || (getSubproject w sp).isSome) = true
        · have hc2 : (h1.allowFallback == some true || r.required || (h1.forcefallback || w.fff.contains sp)
                        || (getSubproject w sp).isSome) = true := by
            revert hc
            cases (h1.forcefallback || w.fff.contains sp) <;> cases (h1.allowFallback == some true) <;>
              cases r.required <;> cases (getSubproject w sp).isSome <;> simp
          simp only [hc, hc2, if_true]
          exact ⟨rfl, rfl, hnofb, ⟨rfl, rfl, hspne⟩⟩
        · have hc' : ((h1.forcefallback || w.fff.contains sp) || h1.allowFallback == some true || r.required
                        || (getSubproject w sp).isSome) = false := by simpa using hc
          have hc2 : (h1.allowFallback == some true || r.required || (h1.forcefallback || w.fff.contains sp)
                        || (getSubproject w sp).isSome) = false := by
            revert hc'
            cases (h1.forcefallback || w.fff.contains sp) <;> cases (h1.allowFallback == some true) <;>
              cases r.required <;> cases (getSubproject w sp).isSome <;> simp
          simp only [hc', hc2, Bool.false_eq_true, if_false]
          exact ⟨rfl, rfl, hnofb, htr⟩
  cases hfb : r.fallback with
  | none =>
    refine ⟨H0 r r.allowFallback none none, by simp [setFallback, H0], ?_⟩
    rw [prepare_eq]
    exact himpl (prepBase w (H0 r r.allowFallback none none)) rfl rfl (by simp [prepBase, H0, forced0, hfb]) rfl
      (by simp [prepBase, H0, allowOf, hfb]) (by simp [explicitFallback, hfb])
  | some l =>
    simp only [hfb, Bool.and_eq_true, decide_eq_true_eq] at hf
    rcases hf with ⟨hnone, hlen⟩
    have hallow : r.allowFallback = none := by cases hx : r.allowFallback <;> simp [hx] at hnone ⊢
    have hnotsome : r.allowFallback.isSome = false := by simp [hallow]
    match l, hlen with
    | [], _ =>
      refine ⟨H0 r (some false) none none, by simp [setFallback, hnotsome, H0], ?_⟩
      rw [prepare_eq]
      exact himpl (prepBase w (H0 r (some false) none none)) rfl rfl (by simp [prepBase, H0, forced0, hfb]) rfl
        (by simp [prepBase, H0, allowOf, hfb]) (by simp [explicitFallback, hfb])
    | [s], _ =>
      refine ⟨H0 r r.allowFallback (some s) none, by simp [setFallback, hnotsome, H0], ?_⟩
      cases s with
      | nil =>
        rw [prepare_eq]
        exact himpl (prepBase w (H0 r r.allowFallback (some []) none)) rfl rfl (by simp [prepBase, H0, forced0, hfb]) rfl
          (by simp [prepBase, H0, allowOf, hfb]) (by simp [explicitFallback, hfb])
      | cons c cs =>
        rw [prepare_eq]
        unfold plan
        simp only [explicitFallback, hfb, prepBase, H0, truthy]
        simp
        exact ⟨rfl, by simp [forced0, hfb], rfl, by simp⟩
    | [s, v], _ =>
      refine ⟨H0 r r.allowFallback (some s) (some v), by simp [setFallback, hnotsome, H0], ?_⟩
      cases s with
      | nil =>
        rw [prepare_eq]
        exact himpl (prepBase w (H0 r r.allowFallback (some []) (some v))) rfl rfl (by simp [prepBase, H0, forced0, hfb]) rfl
          (by simp [prepBase, H0, allowOf, hfb]) (by simp [explicitFallback, hfb])
      | cons c cs =>
        rw [prepare_eq]
        unfold plan
        simp only [explicitFallback, hfb, prepBase, H0, truthy]
        simp
        exact ⟨rfl, by simp [forced0, hfb], rfl, by simp⟩


/-! ### the assembly -/

theorem getCandidates_none (h : Holder) (ht : truthy h.spName = false) :
    getCandidates h = h.names.map Cand.cache ++ h.names.map Cand.system := by
  simp [getCandidates, ht]

theorem getCandidates_some (h : Holder) (sp : Str) (hs : h.spName = some sp) (hne : sp ≠ []) :
    getCandidates h = h.names.map Cand.cache ++
      (Cand.existing sp :: ((if h.forcefallback then [] else h.names.map Cand.system) ++ [Cand.subproject sp])) := by
  have ht : truthy h.spName = true := by
    rw [hs]; cases sp with
    | nil => exact absurd rfl hne
    | cons a b => rfl
  have ht' : truthy (some sp) = true := by rw [← hs]; exact ht
  cases hf : h.forcefallback <;> simp [getCandidates, ht', hs, hf]

theorem knownResult_decide (w : World) (names : List Str) (req : Bool) (k : Known) (next : POutcome × World) :
    knownResult w names req next k =
      match k with
      | .found d => answer w names d
      | .failed => (failure req, w)
      | .unknown => next := by
  cases k <;> rfl

theorem main_core (w : World) (r : Request) (p : Plan) (h : Holder) (ha : Agree w r p h) :
    toP (ow (if ((getCandidates h).isEmpty && r.required) = true then ⟨.error .invalidArguments, w, []⟩
             else loop sat h r.wanted r.required (getCandidates h) w [])) = decide sat w r p := by
  have hn := ha.names
  have hforce := ha.forced
  have hnofb := ha.nofb
  have hfb := ha.fb
  rcases p with ⟨fb, forced⟩
  simp only at hforce hfb
  cases fb with
  | none =>
    simp only at hfb
    have huc : (h.forcefallback && truthy h.spName) = !true := by simp [hfb]
    rw [getCandidates_none h hfb, hn]
    unfold decide
    simp only [Option.isSome_none, Bool.and_false, Bool.not_false]
    cases hnames : r.names with
    | nil =>
      cases hr : r.required <;>
        simp [scanKnown, systemStep, sysScan, toP, ow, loop, failure, Outcome.simplify, hnames]
    | cons n ns =>
      have hne : ((n :: ns).map Cand.cache ++ (n :: ns).map Cand.system).isEmpty = false := rfl
      simp only [hne, Bool.false_and, Bool.false_eq_true, if_false]
      rw [loop_cache sat h r.wanted r.required ((n :: ns).map Cand.system) (by simp) w (n :: ns)]
      have hrel := firstCached_rel sat h w r.wanted true huc (n :: ns)
      rw [rel_finish h r.required w _ _ _ hrel, loop_sys_last, hn, hnames, knownResult_decide]
      simp only [systemStep, hnames]
      cases scanKnown sat w r.wanted true (n :: ns) with
      | found d => rfl
      | failed => rfl
      | unknown =>
        simp only []
        cases sysScan sat w r.wanted (n :: ns) with
        | none => rfl
        | some q => rfl
  | some pr =>
    rcases pr with ⟨sp, var⟩
    simp only at hfb
    rcases hfb with ⟨hspn, hspv, hspne⟩
    have ht : truthy h.spName = true := by
      rw [hspn]; cases sp with
      | nil => exact absurd rfl hspne
      | cons a b => rfl
    have huc : (h.forcefallback && truthy h.spName) = !(!forced) := by simp [hforce, ht]
    rw [getCandidates_some h sp hspn hspne, hn, hforce]
    have hne : (r.names.map Cand.cache ++ (Cand.existing sp ::
        ((if forced = true then [] else r.names.map Cand.system) ++ [Cand.subproject sp]))).isEmpty = false :=
      isEmpty_map_append _ _ _ (by simp)
    simp only [hne, Bool.false_and, Bool.false_eq_true, if_false]
    rw [loop_cache sat h r.wanted r.required _ (by simp) w r.names]
    have hrel := firstCached_rel sat h w r.wanted (!forced) huc r.names
    rw [rel_finish h r.required w _ _ _ hrel, hn, knownResult_decide]
    unfold decide
    simp only [Option.isSome_some, Bool.and_true]
    cases hk : scanKnown sat w r.wanted (!forced) r.names with
    | found d => rfl
    | failed => rfl
    | unknown =>
      simp only []
      have hcache : (!forced) = true → ∀ n ∈ r.names, knownCached sat w r.wanted n = .unknown := by
        intro hu
        rw [hu] at hk
        exact scanKnown_unknown_cached sat w r.wanted r.names hk
      rw [loop_existing sat h r w sp var (!forced) _ (by simp) hspne huc hn hspv hcache]
      cases hg : getSubproject w sp with
      | some s => rfl
      | none =>
        simp only []
        have hsub := loop_subproject sat h r w ⟨some (sp, var), forced⟩ sp var (!forced) hspne huc hn hspv hforce hnofb hcache
        cases hfo : forced with
        | true =>
          subst hfo
          simp only [if_true, List.nil_append, Bool.not_true, Bool.false_eq_true, if_false]
          exact hsub
        | false =>
          subst hfo
          simp only [Bool.false_eq_true, if_false, Bool.not_false, if_true]
          rw [loop_sys sat h r.wanted r.required [Cand.subproject sp] (by simp) w r.names, hn]
          simp only [systemStep]
          cases sysScan sat w r.wanted r.names with
          | none => exact hsub
          | some q => rfl

/-- **`lookup` is the documented decision table**: for every meaning of version constraints, every world
and every request with lower-case names, `DependencyFallbacksHolder.lookup` (as modelled) returns the
outcome the policy prescribes and leaves exactly the world the policy prescribes (overrides, cache of
system dependencies, subproject states). -/
theorem lookup_eq_policy_core (w : World) (r : Request) (hwf : WellFormed r) :
    toP (ow (lookup sat w r)) = policy sat w r := by
  unfold policy
  by_cases hbad : (!namesOk r.names || !fallbackArgOk r) = true
  · rcases mkHolder_err r hbad with ⟨k, hk⟩
    simp only [hbad, if_true]
    unfold lookup
    rw [hk]
    rfl
  · have hb : (!namesOk r.names || !fallbackArgOk r) = false := by simpa using hbad
    have hn : namesOk r.names = true := by
      cases h1 : namesOk r.names <;> simp [h1] at hb ⊢
    have hf : fallbackArgOk r = true := by
      cases h1 : fallbackArgOk r <;> simp [h1] at hb ⊢
    rcases prepare_agree w r hwf hn hf with ⟨h0, hm, hag⟩
    simp only [hb, Bool.false_eq_true, if_false]
    unfold lookup
    rw [hm]
    exact main_core sat w r (plan w r) (prepare w r h0) hag

end MesonModel.DepPolicy
