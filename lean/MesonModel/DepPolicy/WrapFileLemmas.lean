import MesonModel.DepPolicy.WrapFile
/-
Lemmas about the wrap-file layer: `add_wrap` builds a *function* from names to wraps (or raises), every wrap
provides its own lower-cased name, merged wraps never displace an existing provider, and the `[provide]` view of
`DepPolicy.World` derived from a `Resolver` answers as the `Resolver` does.
-/
namespace MesonModel.DepPolicy.WrapFile
open MesonModel.DepPolicy

/-! ### association lists -/

theorem alookup_append_some {β : Type} (k : Str) (v : β) :
    ∀ (l l' : List (Str × β)), alookup k l = some v → alookup k (l ++ l') = some v := by
  intro l
  induction l with
  | nil => intro l' h; simp [alookup] at h
  | cons p rest ih =>
    intro l' h
    rcases p with ⟨k', v'⟩
    simp only [List.cons_append, alookup] at h ⊢
    split
    · rename_i hk; simpa [hk] using h
    · rename_i hk; simp only [hk, if_false] at h; exact ih l' h

theorem alookup_append_none {β : Type} (k : Str) :
    ∀ (l l' : List (Str × β)), alookup k l = none → alookup k (l ++ l') = alookup k l' := by
  intro l
  induction l with
  | nil => intro l' _; rfl
  | cons p rest ih =>
    intro l' h
    rcases p with ⟨k', v'⟩
    simp only [List.cons_append, alookup] at h ⊢
    split
    · rename_i hk; simp [hk] at h
    · rename_i hk; simp only [hk, if_false] at h; exact ih l' h

theorem alookup_mem {β : Type} (k : Str) (v : β) :
    ∀ (l : List (Str × β)), alookup k l = some v → (k, v) ∈ l := by
  intro l
  induction l with
  | nil => intro h; simp [alookup] at h
  | cons p rest ih =>
    intro h
    rcases p with ⟨k', v'⟩
    simp only [alookup] at h
    split at h
    · rename_i hk; cases h; simp [hk]
    · exact List.mem_cons_of_mem _ (ih h)

theorem alookup_isSome_of_mem_keys {β : Type} (k : Str) :
    ∀ (l : List (Str × β)), k ∈ keys l → (alookup k l).isSome = true := by
  intro l
  induction l with
  | nil => intro h; simp [keys] at h
  | cons p rest ih =>
    intro h
    rcases p with ⟨k', v'⟩
    simp only [alookup]
    split
    · rfl
    · rename_i hk
      simp only [keys, List.map_cons, List.mem_cons] at h
      rcases h with h | h
      · exact absurd h.symm hk
      · exact ih h

theorem mem_keys_of_alookup {β : Type} (k : Str) (v : β) (l : List (Str × β)) (h : alookup k l = some v) : k ∈ keys l := by
  have := alookup_mem k v l h
  exact List.mem_map.mpr ⟨(k, v), this, rfl⟩

theorem alookup_map {β γ : Type} (k : Str) (f : Str × β → γ) :
    ∀ (l : List (Str × β)), alookup k (l.map (fun e => (e.1, f e))) = (alookup k l).map (fun v => f (k, v)) := by
  intro l
  induction l with
  | nil => rfl
  | cons p rest ih =>
    rcases p with ⟨k', v'⟩
    simp only [List.map_cons, alookup]
    split
    · rename_i hk; subst hk; rfl
    · exact ih

theorem mem_dset {β : Type} (k : Str) (v : β) (e : Str × β) :
    ∀ (l : List (Str × β)), e ∈ dset k v l → e = (k, v) ∨ e ∈ l := by
  intro l
  induction l with
  | nil => intro h; simp [dset] at h; exact Or.inl h
  | cons p rest ih =>
    intro h
    rcases p with ⟨k', v'⟩
    simp only [dset] at h
    split at h
    · simp only [List.mem_cons] at h
      rcases h with h | h
      · exact Or.inl h
      · exact Or.inr (List.mem_cons_of_mem _ h)
    · simp only [List.mem_cons] at h
      rcases h with h | h
      · exact Or.inr (by simp [h])
      · rcases ih h with h | h
        · exact Or.inl h
        · exact Or.inr (List.mem_cons_of_mem _ h)

theorem keys_dset {β : Type} (k : Str) (v : β) (x : Str) :
    ∀ (l : List (Str × β)), x ∈ keys l → x ∈ keys (dset k v l) := by
  intro l
  induction l with
  | nil => intro h; simp [keys] at h
  | cons p rest ih =>
    intro h
    rcases p with ⟨k', v'⟩
    simp only [keys, List.map_cons, List.mem_cons] at h
    simp only [dset]
    split
    · rename_i hk
      rcases h with h | h
      · simp [keys, h, hk]
      · simp only [keys, List.map_cons, List.mem_cons]; exact Or.inr h
    · rcases h with h | h
      · simp [keys, h]
      · simp only [keys, List.map_cons, List.mem_cons]; exact Or.inr (ih h)

/-! ### `add_wrap`: the first loop -/

/-- entries present before stay what they were — in both modes (`ignore_dups`: "first wins") -/
theorem addDeps_old (w : PkgDef) (ig : Bool) : ∀ (ks : List Str) (t t' : List (Str × PkgDef)),
    addDeps w ig ks t = .ok t' → ∀ k v, alookup k t = some v → alookup k t' = some v := by
  intro ks
  induction ks with
  | nil => intro t t' h k v hk; simp [addDeps] at h; subst h; exact hk
  | cons x rest ih =>
    intro t t' h k v hk
    simp only [addDeps] at h
    split at h
    · exact ih _ _ h k v (alookup_append_some k v t _ hk)
    · split at h
      · exact ih _ _ h k v hk
      · cases h

/-- without `ignore_dups`, success means every key was new and now names `w` -/
theorem addDeps_new (w : PkgDef) : ∀ (ks : List Str) (t t' : List (Str × PkgDef)),
    addDeps w false ks t = .ok t' → ∀ k ∈ ks, alookup k t' = some w := by
  intro ks
  induction ks with
  | nil => intro t t' _ k hk; simp at hk
  | cons x rest ih =>
    intro t t' h k hk
    simp only [addDeps] at h
    split at h
    · rename_i hnone
      simp only [List.mem_cons] at hk
      rcases hk with hk | hk
      · subst hk
        apply addDeps_old w false rest _ _ h
        rw [alookup_append_none k t _ hnone]
        simp [alookup]
      · exact ih _ _ h k hk
    · simp at h

/-- every entry of the result was there before or is (`k ∈ ks`, `w`) -/
theorem addDeps_mem (w : PkgDef) (ig : Bool) : ∀ (ks : List Str) (t t' : List (Str × PkgDef)),
    addDeps w ig ks t = .ok t' → ∀ k v, alookup k t' = some v → alookup k t = some v ∨ (k ∈ ks ∧ v = w) := by
  intro ks
  induction ks with
  | nil => intro t t' h k v hk; simp [addDeps] at h; subst h; exact Or.inl hk
  | cons x rest ih =>
    intro t t' h k v hk
    simp only [addDeps] at h
    split at h
    · rename_i hnone
      rcases ih _ _ h k v hk with h1 | h1
      · by_cases hkx : x = k
        · subst hkx
          rw [alookup_append_none x t _ hnone] at h1
          simp [alookup] at h1
          exact Or.inr ⟨by simp, h1.symm⟩
        · cases hl : alookup k t with
          | some v0 =>
            have := alookup_append_some k v0 t [(x, w)] hl
            rw [this] at h1; cases h1; exact Or.inl rfl
          | none =>
            rw [alookup_append_none k t _ hl] at h1
            simp [alookup, hkx] at h1
      · exact Or.inr ⟨List.mem_cons_of_mem _ h1.1, h1.2⟩
    · split at h
      · rcases ih _ _ h k v hk with h1 | h1
        · exact Or.inl h1
        · exact Or.inr ⟨List.mem_cons_of_mem _ h1.1, h1.2⟩
      · cases h

theorem addWrap_deps (w : PkgDef) (ig : Bool) (t t' : Tables) (h : addWrap w ig t = .ok t') :
    addDeps w ig (keys w.providedDeps) t.deps = .ok t'.deps := by
  unfold addWrap at h
  split at h
  · cases h
  · rename_i d hd
    split at h
    · cases h
    · cases h; exact hd

/-! ### `for wrap in self.wraps.values(): self.add_wrap(wrap)` -/

theorem addAll_old : ∀ (ws : List PkgDef) (t t' : Tables), addAll ws t = .ok t' →
    ∀ k v, alookup k t.deps = some v → alookup k t'.deps = some v := by
  intro ws
  induction ws with
  | nil => intro t t' h k v hk; simp [addAll] at h; subst h; exact hk
  | cons w rest ih =>
    intro t t' h k v hk
    simp only [addAll] at h
    split at h
    · cases h
    · rename_i t1 h1
      exact ih _ _ h k v (addDeps_old w false _ _ _ (addWrap_deps w false t t1 h1) k v hk)

/-- after a successful load every wrap is *the* provider of every name it declares -/
theorem addAll_new : ∀ (ws : List PkgDef) (t t' : Tables), addAll ws t = .ok t' →
    ∀ w ∈ ws, ∀ k ∈ keys w.providedDeps, alookup k t'.deps = some w := by
  intro ws
  induction ws with
  | nil => intro t t' _ w hw; simp at hw
  | cons x rest ih =>
    intro t t' h w hw k hk
    simp only [addAll] at h
    split at h
    · cases h
    · rename_i t1 h1
      simp only [List.mem_cons] at hw
      rcases hw with hw | hw
      · subst hw
        exact addAll_old rest _ _ h k w (addDeps_new w _ _ _ (addWrap_deps w false t t1 h1) k hk)
      · exact ih _ _ h w hw k hk

/-- ... and every entry of the table comes from a wrap that declares the name -/
theorem addAll_mem : ∀ (ws : List PkgDef) (t t' : Tables), addAll ws t = .ok t' →
    ∀ k v, alookup k t'.deps = some v → alookup k t.deps = some v ∨ (v ∈ ws ∧ k ∈ keys v.providedDeps) := by
  intro ws
  induction ws with
  | nil => intro t t' h k v hk; simp [addAll] at h; subst h; exact Or.inl hk
  | cons x rest ih =>
    intro t t' h k v hk
    simp only [addAll] at h
    split at h
    · cases h
    · rename_i t1 h1
      rcases ih _ _ h k v hk with h2 | h2
      · rcases addDeps_mem x false _ _ _ (addWrap_deps x false t t1 h1) k v h2 with h3 | h3
        · exact Or.inl h3
        · exact Or.inr ⟨by simp [h3.2], by rw [h3.2]; exact h3.1⟩
      · exact Or.inr ⟨List.mem_cons_of_mem _ h2.1, h2.2⟩

/-! ### every wrap provides its own name -/

def OwnName (p : PkgDef) : Prop := lower p.name ∈ keys p.providedDeps

theorem addDepNames_keys (x : Str) : ∀ (ns : List Str) (deps : List (Str × Option Str)),
    x ∈ keys deps → x ∈ keys (addDepNames deps ns) := by
  intro ns
  induction ns with
  | nil => intro deps h; exact h
  | cons n rest ih => intro deps h; exact ih _ (keys_dset _ _ x deps h)

theorem provideItems_keys (x : Str) : ∀ (its : List (Str × Str)) (p p' : PkgDef),
    provideItems its p = .ok p' → x ∈ keys p.providedDeps → x ∈ keys p'.providedDeps ∧ p'.name = p.name := by
  intro its
  induction its with
  | nil => intro p p' h hx; simp [provideItems] at h; subst h; exact ⟨hx, rfl⟩
  | cons it rest ih =>
    intro p p' h hx
    rcases it with ⟨k, v⟩
    simp only [provideItems] at h
    split at h
    · have := ih _ p' h (addDepNames_keys x _ _ hx)
      exact ⟨this.1, this.2⟩
    · split at h
      · have := ih _ p' h hx
        exact ⟨this.1, this.2⟩
      · split at h
        · cases h
        · have := ih _ p' h (keys_dset _ _ x _ hx)
          exact ⟨this.1, this.2⟩

theorem mkPkg_own (name : Str) (ty : Option Str) (vals : List (Str × Str)) (p : PkgDef)
    (h : mkPkg name ty vals = .ok p) : p.name = name ∧ p.providedDeps = [(lower name, none)] ∧ p.providedPrograms = [] := by
  unfold mkPkg at h
  simp only [] at h
  split at h
  · cases h
  · split at h
    · cases h
    · cases h; exact ⟨rfl, rfl, rfl⟩

theorem parseProvideSection_own (ini : Ini) (p p' : PkgDef) (h : parseProvideSection ini p = .ok p') (ho : OwnName p) :
    OwnName p' := by
  unfold parseProvideSection at h
  split at h
  · cases h
  · split at h
    · have := provideItems_keys (lower p.name) _ _ _ h ho
      unfold OwnName; rw [this.2]; exact this.1
    · cases h; exact ho

theorem fromWrapFile_own (fs : FS) : ∀ (fuel : Nat) (dir : Path) (f : Str) (p : PkgDef),
    fromWrapFile fs fuel dir f = .ok p → OwnName p := by
  intro fuel
  induction fuel with
  | zero => intro dir f p h; simp [fromWrapFile] at h
  | succ n ih =>
    intro dir f p h
    simp only [fromWrapFile] at h
    split at h
    · cases h
    · split at h
      · cases h
      · split at h
        · split at h
          · cases h
          · split at h
            · cases h
            · split at h
              · cases h
              · split at h
                · cases h
                · split at h
                  · cases h
                  · split at h
                    · cases h
                    · rename_i w hw
                      cases h
                      have := ih _ _ _ hw
                      exact this
        · split at h
          · cases h
          · rename_i q hq
            have hq' := mkPkg_own _ _ _ _ hq
            apply parseProvideSection_own _ _ _ h
            unfold OwnName
            rw [hq'.1, hq'.2.1]
            simp [keys]

theorem dirPkg_own (d : Str) : OwnName (dirPkg d) := by simp [OwnName, dirPkg, keys]

theorem loadFiles_own (fs : FS) (fuel : Nat) (base : Path) : ∀ (files : List Str) (acc ws : List (Str × PkgDef)),
    loadFiles fs fuel base files acc = .ok ws → (∀ e ∈ acc, OwnName e.2 ∧ e.2.name = e.1) → ∀ e ∈ ws, OwnName e.2 ∧ e.2.name = e.1 := by
  intro files
  induction files with
  | nil => intro acc ws h hacc; simp [loadFiles] at h; subst h; exact hacc
  | cons f rest ih =>
    intro acc ws h hacc
    simp only [loadFiles] at h
    split at h
    · exact ih _ _ h hacc
    · split at h
      · cases h
      · rename_i w hw
        apply ih _ _ h
        intro e he
        rcases mem_dset _ _ e acc he with h1 | h1
        · subst h1; exact ⟨fromWrapFile_own fs fuel base f w hw, rfl⟩
        · exact hacc e h1

theorem loadDirs_own (ign : List Str) : ∀ (dirs : List Str) (acc : List (Str × PkgDef)),
    (∀ e ∈ acc, OwnName e.2 ∧ e.2.name = e.1) → ∀ e ∈ loadDirs ign dirs acc, OwnName e.2 ∧ e.2.name = e.1 := by
  intro dirs
  induction dirs with
  | nil => intro acc hacc; exact hacc
  | cons d rest ih =>
    intro acc hacc
    simp only [loadDirs]
    split
    · exact ih acc hacc
    · apply ih
      intro e he
      rcases mem_dset _ _ e acc he with h1 | h1
      · subst h1; exact ⟨dirPkg_own d, rfl⟩
      · exact hacc e h1

/-! ### `load_wraps` -/

/-- what a successful `load_wraps` establishes -/
structure Loaded (r : Resolver) : Prop where
  /-- every wrap is the provider of every name it declares -/
  provider : ∀ e ∈ r.wraps, ∀ k ∈ keys e.2.providedDeps, alookup k r.providedDeps = some e.2
  /-- the table holds nothing else -/
  sound : ∀ k v, alookup k r.providedDeps = some v → (∃ e ∈ r.wraps, e.2 = v) ∧ k ∈ keys v.providedDeps
  /-- every wrap provides its own lower-cased name, and is stored under its name -/
  own : ∀ e ∈ r.wraps, OwnName e.2 ∧ e.2.name = e.1

theorem loadWraps_loaded (fs : FS) (fuel : Nat) (base : Path) (files dirs : List Str) (wdb : List (Str × List Str × List Str))
    (r : Resolver) (h : loadWraps fs fuel base files dirs wdb = .ok r) : Loaded r := by
  unfold loadWraps at h
  split at h
  · cases h
  · rename_i ws hws
    simp only [] at h
    split at h
    · cases h
    · rename_i t ht
      cases h
      refine ⟨?_, ?_, ?_⟩
      · intro e he k hk
        exact addAll_new _ _ _ ht e.2 (List.mem_map.mpr ⟨e, he, rfl⟩) k hk
      · intro k v hv
        rcases addAll_mem _ _ _ ht k v hv with h1 | h1
        · simp [alookup] at h1
        · rcases List.mem_map.mp h1.1 with ⟨e, he, hev⟩
          exact ⟨⟨e, he, hev⟩, h1.2⟩
      · exact loadDirs_own _ dirs ws (loadFiles_own fs fuel base files [] ws hws (by intro e he; simp at he))

/-! ### the `[provide]` view of the lookup's world -/

theorem world_findDepProvider (w : World) (r : Resolver) (hw : w.provides = providesOf r) (hdb : r.wrapdbDeps = [])
    (n : Str) : MesonModel.DepPolicy.findDepProvider w n = findDepProvider r n := by
  unfold MesonModel.DepPolicy.findDepProvider findDepProvider providesOf at *
  rw [hw, alookup_map]
  simp only [hdb]
  cases alookup (lower n) r.providedDeps <;> simp [alookup]

/-! ### `merge_wraps`: existing entries win -/

theorem mergeOne_old (r r' : Resolver) (k : Str) (v : PkgDef) (h : mergeOne r k v = .ok r')
    (key : Str) (w : PkgDef) (hk : alookup key r.providedDeps = some w) (hne : key ≠ lower v.directory) :
    alookup key r'.providedDeps = some w := by
  have hdel : ∀ (l : List (Str × PkgDef)), alookup key (ddel (lower v.directory) l) = alookup key l := by
    intro l
    induction l with
    | nil => rfl
    | cons p rest ih =>
      rcases p with ⟨k', v'⟩
      simp only [ddel]
      split
      · rename_i hk'
        simp only [alookup]
        have : ¬ (k' = key) := by rw [hk']; exact fun h => hne h.symm
        simp [this]
      · simp only [alookup]; split
        · rfl
        · exact ih
  unfold mergeOne at h
  simp only [] at h
  split at h
  · cases h
  · rename_i r1 hr1
    have h1 : alookup key r1.providedDeps = some w := by
      split at hr1
      · split at hr1
        · split at hr1
          · cases hr1
          · cases hr1; simp only []; rw [hdel]; exact hk
        · cases hr1; exact hk
      · cases hr1; exact hk
    split at h
    · cases h; exact h1
    · split at h
      · cases h
      · rename_i t ht
        cases h
        simp only []
        exact addDeps_old v true _ _ _ (addWrap_deps v true _ t ht) key w h1

theorem mergeWraps_old : ∀ (ws : List (Str × PkgDef)) (r r' : Resolver), mergeWraps ws r = .ok r' →
    ∀ key w, alookup key r.providedDeps = some w → (∀ e ∈ ws, key ≠ lower e.2.directory) →
    alookup key r'.providedDeps = some w := by
  intro ws
  induction ws with
  | nil => intro r r' h key w hk _; simp [mergeWraps] at h; subst h; exact hk
  | cons e rest ih =>
    intro r r' h key w hk hne
    rcases e with ⟨k, v⟩
    simp only [mergeWraps] at h
    split at h
    · cases h
    · rename_i r1 hr1
      exact ih _ _ h key w (mergeOne_old r r1 k v hr1 key w hk (hne (k, v) (by simp))) (fun e he => hne e (List.mem_cons_of_mem _ he))

end MesonModel.DepPolicy.WrapFile
