#!/usr/bin/env python3
"""Re-run the registered check of every kept seeded change against the current /repo HEAD.

    tools_reseed.py [-j N] [--only C03-c5,C07-b | --prop C03] [--tier quick]

For each /verif/seeded/<name>/: scratch worktree of /repo HEAD (under /tmp), `git apply patch.diff`,
`VERIF_REPO=<worktree> ./check <PROP> --tier <tier>`, worktree removed.  The verdict is appended to the seed's
meta.json history and the table /verif/seeded/RESULTS.md is rewritten.  Nothing is ever applied to /repo itself.
Verdicts: caught (exit 1 + VIOLATION line with a failing input), caught-no-input (exit 1, no-failing-input-found),
MISSED (exit 0), crashed (exit 2), patch-does-not-apply.
"""
import argparse
import concurrent.futures as cf
import json
import os
import shutil
import subprocess
import threading
import time

VERIF = os.path.dirname(os.path.abspath(__file__))
LOCKS: dict = {}
LOCKS_GUARD = threading.Lock()


def sh(cmd, cwd=None, env=None, timeout=7200):
    p = subprocess.run(cmd, cwd=cwd, env=env, stdout=subprocess.PIPE, stderr=subprocess.STDOUT, text=True, timeout=timeout)
    return p.returncode, p.stdout


def head(repo):
    return subprocess.run(['git', '-C', repo, 'log', '--format=%h', '-1'], stdout=subprocess.PIPE, text=True).stdout.strip()


def one(name: str, tier: str) -> dict:
    prop = name.split('-')[0]
    with LOCKS_GUARD:
        lock = LOCKS.setdefault(prop, threading.Lock())
    with lock:   # two runs of one property's check share /verif/.work/<ID>: never run them at the same time
        return _one(name, tier)


def _one(name: str, tier: str) -> dict:
    d = os.path.join(VERIF, 'seeded', name)
    meta = json.load(open(os.path.join(d, 'meta.json')))
    prop = meta.get('property') or name.split('-')[0]
    wt = f'/tmp/reseed-{name}-{os.getpid()}'
    res = {'name': name, 'property': prop}
    rc, out = sh(['git', '-C', '/repo', 'worktree', 'add', '--detach', wt, 'HEAD'])
    if rc != 0:
        res['verdict'] = 'worktree-failed'
        return res
    t0 = time.time()
    try:
        rc, out = sh(['git', 'apply', os.path.join(d, 'patch.diff')], cwd=wt)
        if rc != 0:
            res['verdict'] = 'patch-does-not-apply'
        else:
            # first at plain quick size (no escalation on a changed source pin); a miss there is re-run the way
            # the check is registered (a changed pin makes the quick tier run at thorough size)
            rc, out = 0, ''
            for pin_deep in ('0', '1'):
                env = dict(os.environ, VERIF_REPO=wt, VERIF_PIN_DEEP=pin_deep)
                try:
                    rc, out = sh([os.path.join(VERIF, 'check'), prop, '--tier', tier], cwd=VERIF, env=env)
                except subprocess.TimeoutExpired:
                    rc, out = 2, 'TIMEOUT'
                res['size'] = 'quick size' if pin_deep == '0' else 'as registered (pin change => thorough size)'
                if rc == 1:
                    break
            lines = [l for l in out.split('\n') if l.startswith('VIOLATION')]
            detail = [l.strip() for l in out.split('\n') if l.startswith('  ')]
            if rc == 1 and lines and not all(l.endswith('no-failing-input-found') for l in lines):
                res['verdict'] = 'caught'
            elif rc == 1 and lines:
                res['verdict'] = 'caught-no-input'
            elif rc == 0:
                res['verdict'] = 'MISSED'
            else:
                res['verdict'] = f'crashed (exit {rc})'
            res['first'] = (detail[0] if detail else '')[:240]
    finally:
        sh(['git', '-C', '/repo', 'worktree', 'remove', '--force', wt])
        shutil.rmtree(wt, ignore_errors=True)
    res['wall_s'] = round(time.time() - t0, 1)
    hist = meta.setdefault('history', [])
    hist.append({'repo_head': head('/repo'), 'verif_head': head(VERIF), 'tiers': [tier], 'verdict': res['verdict'],
                 'size': res.get('size', ''), 'first': res.get('first', '')})
    vs = [h['verdict'] for h in hist]
    meta['last_result'] = res['verdict'] if len(set(vs)) == 1 else f"{res['verdict']} (history: " + ' -> '.join(vs) + ')'
    json.dump(meta, open(os.path.join(d, 'meta.json'), 'w'), indent=1)
    return res


def write_table() -> None:
    rows = []
    for name in sorted(os.listdir(os.path.join(VERIF, 'seeded'))):
        mp = os.path.join(VERIF, 'seeded', name, 'meta.json')
        if not os.path.exists(mp):
            continue
        m = json.load(open(mp))
        hist = m.get('history', [])
        first = hist[0]['verdict'] if hist else '(not recorded)'
        last = hist[-1] if hist else {}
        rows.append((name, m.get('property', ''), (m.get('summary') or '').replace('|', '/')[:150], first,
                     last.get('verdict', m.get('last_result', '')), last.get('size', ''), last.get('repo_head', ''),
                     (last.get('first') or '').replace('|', '/')[:120]))
    with open(os.path.join(VERIF, 'seeded', 'RESULTS.md'), 'w') as f:
        f.write('# Seeded changes: verdict of the registered quick check\n\n'
                'Generated by `tools_reseed.py`. "first run" is the verdict when the seed was first confirmed (before any '
                'strengthening it triggered); "last run" is the latest re-run against the /repo HEAD named in the next column.\n\n'
                '| seed | property | change | first run | last run | run size | /repo HEAD | first reported failing input |\n|---|---|---|---|---|---|---|---|\n')
        for r in rows:
            f.write('| ' + ' | '.join(str(x) for x in r) + ' |\n')
        n = len(rows)
        caught = sum(1 for r in rows if r[4] == 'caught')
        f.write(f'\n{n} seeds; last run: {caught} caught with a concrete failing input, '
                f'{sum(1 for r in rows if r[4] == "caught-no-input")} reported without one, '
                f'{sum(1 for r in rows if r[4] == "MISSED")} missed, '
                f'{sum(1 for r in rows if r[4] not in ("caught", "caught-no-input", "MISSED"))} other.\n')


def main() -> None:
    ap = argparse.ArgumentParser()
    ap.add_argument('-j', type=int, default=4)
    ap.add_argument('--only')
    ap.add_argument('--prop')
    ap.add_argument('--tier', default='quick')
    ap.add_argument('--table-only', action='store_true')
    a = ap.parse_args()
    if not a.table_only:
        names = sorted(n for n in os.listdir(os.path.join(VERIF, 'seeded')) if os.path.exists(os.path.join(VERIF, 'seeded', n, 'patch.diff')))
        if a.only:
            names = [n for n in names if n in a.only.split(',')]
        if a.prop:
            names = [n for n in names if n.startswith(a.prop.upper() + '-')]
        # interleave properties so that one property's check is not run many times at once
        names.sort(key=lambda n: (n.split('-')[1], n))
        with cf.ThreadPoolExecutor(a.j) as ex:
            for r in ex.map(lambda n: one(n, a.tier), names):
                print(r['name'], r['verdict'], r.get('wall_s'), (r.get('first') or '')[:140], flush=True)
    write_table()


if __name__ == '__main__':
    main()
